------------------------------- MODULE Upgrade -------------------------------
(* The v1.2.0 upgrade of c4e-chain as a function from a pre-upgrade (legacy format)
   state to the post-upgrade state:

     Migrate2to3          store migrations of cfevesting (pools and account traces to the new
                          format, parameters out of x/params), cfeminter and cfedistributor parameters
     UpdateTraces         lineage flags for the hard-coded genesis / from-genesis-pool addresses
     ModifyPools          the hard-coded owner's "Validators pool" is renamed and split into four
                          new pools, its vesting type renamed, four vesting types added - all or nothing
     ModifyAccounts       four hard-coded continuous vesting accounts are shifted by one year

   Amounts are whole C4E (the harness multiplies by 10^6); times are days. *)
EXTENDS Integers, Sequences, FiniteSets, TLC

CONSTANTS PreStates,   \* the pre-upgrade states explored (records, see MC module)
          HOwner,      \* the hard-coded pool owner
          GenesisAddrs, FromPoolAddrs,  \* hard-coded lineage lists
          ShiftAccounts,                 \* the hard-coded accounts whose schedule is shifted
          D3Y, D2Y3M, D1Y6M, D2Y         \* calendar shifts (AddDate) from the validators pool's lock start, in days

VARIABLES st, phase, act
vars == <<st, phase, act>>

VCAmt == 15000000  EBAmt == 8000000  PUAmt == 9000000  SRAmt == 40000000
SplitSum == VCAmt + EBAmt + PUAmt + SRAmt
Year == 365

PoolLocked(p) == p.init - p.sent - p.withdrawn
IdxOf(ps, n) == { i \in DOMAIN ps : ps[i].name = n }
LastIdx(S) == CHOOSE i \in S : \A j \in S : j <= i

\* store migration: every pool keeps its numbers and becomes a non-genesis pool; traces get empty flags
MigratePools(pools) == [o \in DOMAIN pools |-> [i \in DOMAIN pools[o] |-> pools[o][i] @@ [genesis |-> FALSE]]]
MigrateTraces(trs) == [a \in trs |-> [genesis |-> FALSE, fromPool |-> FALSE, fromAcc |-> FALSE]]

UpdateTraces(tr) == [a \in DOMAIN tr |->
   IF a \in GenesisAddrs THEN [tr[a] EXCEPT !.genesis = TRUE]
   ELSE IF a \in FromPoolAddrs THEN [tr[a] EXCEPT !.fromPool = TRUE] ELSE tr[a]]

NewPool(n, vt, amt, ls, addDays) == [name |-> n, vt |-> vt, lockStart |-> ls, lockEnd |-> ls + addDays, init |-> amt, sent |-> 0, withdrawn |-> 0, genesis |-> TRUE]

ModifyPools(pools, vtypes) ==
  IF HOwner \notin DOMAIN pools THEN [pools |-> pools, vtypes |-> vtypes, done |-> FALSE]
  ELSE LET ps == pools[HOwner]
           vis == IdxOf(ps, "Validators pool")
       IN IF vis = {} THEN [pools |-> pools, vtypes |-> vtypes, done |-> FALSE]
          ELSE LET vi == LastIdx(vis)
                   vp == ps[vi]
               IN IF PoolLocked(vp) < SplitSum \/ "Validators" \notin vtypes THEN [pools |-> pools, vtypes |-> vtypes, done |-> FALSE]
                  ELSE LET ps1 == [i \in DOMAIN ps |->
                                     IF i = vi THEN [ps[i] EXCEPT !.name = "Validator round pool", !.vt = "Validator round", !.genesis = TRUE, !.init = @ - SplitSum]
                                     ELSE IF ps[i].name = "Advisors pool" THEN [ps[i] EXCEPT !.genesis = TRUE] ELSE ps[i]]
                           ls == vp.lockStart
                           added == << NewPool("VC round pool", "VC round", VCAmt, ls, D3Y),
                                       NewPool("Early-bird round pool", "Early-bird round", EBAmt, ls, D2Y3M),
                                       NewPool("Public round pool", "Public round", PUAmt, ls, D1Y6M),
                                       NewPool("Strategic reserve short term round pool", "Strategic reserve short term round", SRAmt, ls, D2Y) >>
                       IN [pools |-> [pools EXCEPT ![HOwner] = ps1 \o added],
                           vtypes |-> (vtypes \ {"Validators"}) \cup {"Validator round", "VC round", "Early-bird round", "Public round", "Strategic reserve short term round"},
                           done |-> TRUE]

ModifyAccounts(accts) == [a \in DOMAIN accts |->
   IF a \in ShiftAccounts /\ accts[a].kind = "cv" THEN [accts[a] EXCEPT !.start = @ + Year, !.end = @ + Year] ELSE accts[a]]

Upgraded(s) ==
  LET p1 == MigratePools(s.pools)
      t1 == UpdateTraces(MigrateTraces(s.traces))
      m == ModifyPools(p1, s.vtypes)
  IN [pools |-> m.pools, vtypes |-> m.vtypes, traces |-> t1, accts |-> ModifyAccounts(s.accts), split |-> m.done,
      minter |-> s.minter, dist |-> s.dist, vdenom |-> s.vdenom]

Init == st = [none |-> TRUE] /\ phase = "init" /\ act = [name |-> "init"]
Setup(s) == phase = "init" /\ st' = s /\ phase' = "pre" /\ act' = [name |-> "configure"]
Upgrade == phase = "pre" /\ st' = Upgraded(st) /\ phase' = "post" /\ act' = [name |-> "upgrade"]
Next == (\E s \in PreStates : Setup(s)) \/ Upgrade
Spec == Init /\ [][Next]_vars

(* ---- C16 ---- *)
SumSeq(s, f(_)) == LET RECURSIVE T(_)
                       T(i) == IF i = 0 THEN 0 ELSE f(s[i]) + T(i - 1)
                   IN T(Len(s))
SumOwners(pools, f(_)) == LET RECURSIVE T(_)
                              T(S) == IF S = {} THEN 0 ELSE LET o == CHOOSE o \in S : TRUE IN f(pools[o]) + T(S \ {o})
                          IN T(DOMAIN pools)
TotalLocked(pools) == SumOwners(pools, LAMBDA ps : SumSeq(ps, PoolLocked))
LockedPreserved == [][phase = "pre" => TotalLocked(st'.pools) = TotalLocked(st.pools)]_vars
HistoryPreserved == [][phase = "pre" => \A o \in DOMAIN st.pools : \A i \in DOMAIN st.pools[o] :
                          /\ i \in DOMAIN st'.pools[o]
                          /\ st'.pools[o][i].sent = st.pools[o][i].sent /\ st'.pools[o][i].withdrawn = st.pools[o][i].withdrawn]_vars
SolventAfter == phase = "post" => \A o \in DOMAIN st.pools : \A i \in DOMAIN st.pools[o] :
                   LET p == st.pools[o][i] IN p.sent >= 0 /\ p.withdrawn >= 0 /\ p.sent + p.withdrawn <= p.init
AllOrNothing == [][phase = "pre" =>
                    \/ (~st'.split /\ \A o \in DOMAIN st.pools : Len(st'.pools[o]) = Len(st.pools[o])
                                   /\ \A i \in DOMAIN st.pools[o] : st'.pools[o][i].init = st.pools[o][i].init /\ st'.pools[o][i].name = st.pools[o][i].name)
                    \/ (st'.split /\ Len(st'.pools[HOwner]) = Len(st.pools[HOwner]) + 4
                                  /\ SumSeq(SubSeq(st'.pools[HOwner], Len(st.pools[HOwner]) + 1, Len(st.pools[HOwner]) + 4), PoolLocked) = SplitSum)]_vars
AccountsKeepAmounts == [][phase = "pre" => \A a \in DOMAIN st.accts :
                            /\ st'.accts[a].ov = st.accts[a].ov /\ st'.accts[a].kind = st.accts[a].kind
                            /\ st'.accts[a].dv = st.accts[a].dv /\ st'.accts[a].df = st.accts[a].df /\ st'.accts[a].seq = st.accts[a].seq
                            /\ st'.accts[a].end - st'.accts[a].start = st.accts[a].end - st.accts[a].start]_vars
ParamsPreserved == [][phase = "pre" => st'.minter = st.minter /\ st'.dist = st.dist /\ st'.vdenom = st.vdenom]_vars
=============================================================================
