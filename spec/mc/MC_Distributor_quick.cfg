SPECIFICATION Spec
CONSTANTS
  P = 64
  Configs <- ValidCfgs
  Accs <- AllAccs
  Denoms = {"uc4e"}
  DepositVecs <- DepositsSmall
  FaultSets <- NoFaults
  MaxBlocks = 2
  UpdateTries <- NoTries
  MaxUpdates = 0
  RejectProbeBlocks = {}
  ModuleIds = {"m1", "m2", "m3"}
  BaseIds = {"b1"}
  Quirks = {}
  ModIdsUsed = {"m1", "m2", "m3"}
  BaseIdsUsed = {"b1"}
  IntIdsUsed = {"i1", "m1"}
  ShareNums = {1, 2}
  ShareDen = 4
  Amts = {1, 3, 10}
  Family = "curated"
INVARIANTS NonNegative BooksMatch Conservation ShareExact PaidUp NeverHalts StoredParamsValid EventsAddUp
VIEW ViewNoAct
CHECK_DEADLOCK FALSE
