SPECIFICATION Spec
CONSTANTS
  P = 10
  OvMax = 120
  YMax = 6
INVARIANT InvExact
CHECK_DEADLOCK FALSE
