----------------------------- MODULE MBT_Upgrade -----------------------------
EXTENDS Upgrade, Json, TLCExt

H == "H"  X == "X"
Pool(n, vt, locked, sent, wd) == [name |-> n, vt |-> vt, lockStart |-> 0, lockEnd |-> 700, init |-> locked + sent + wd, sent |-> sent, withdrawn |-> wd]
ValPools == { <<>> } \cup
  { << Pool("Validators pool", "Validators", l, s, w) >> : l \in {SplitSum - 1, SplitSum, SplitSum + 1, 2 * SplitSum}, s \in {0, 5}, w \in {0, 3} }
Extra == { <<>>, << Pool("Advisors pool", "Advisors", 100, 1, 0) >>, << Pool("VC round pool", "Advisors", 7, 0, 0) >>,
           << Pool("Advisors pool", "Advisors", 100, 0, 2), Pool("Other pool", "Validators", 50, 5, 5) >> }
HPools == { e \o v : e \in Extra, v \in ValPools } \cup { v \o e : e \in {<< Pool("Advisors pool", "Advisors", 100, 1, 0) >>}, v \in ValPools }
XPools == { <<>>, << Pool("Validators pool", "Validators", SplitSum, 0, 0) >>, << Pool("x", "Validators", 10, 2, 1) >> }
VTypeSets == { {"Validators", "Advisors"}, {"Advisors"} }
TraceSets == { {}, {"g1", "f1", "o1"}, {"g1"} }
\* continuous vesting account: original vesting, schedule, delegation counters (delegated vesting / delegated free), sequence number
CVD(ov, s, e, dv, df, seq) == [kind |-> "cv", ov |-> ov, start |-> s, end |-> e, dv |-> dv, df |-> df, seq |-> seq]
CV(ov, s, e) == CVD(ov, s, e, 0, 0, 0)
NoA(k) == [kind |-> k, ov |-> 0, start |-> 0, end |-> 0, dv |-> 0, df |-> 0, seq |-> 0]
AcctSets == { [a \in {"s1", "s2"} |-> NoA("none")],
              [a \in {"s1", "s2"} |-> IF a = "s1" THEN CV(1000, 10, 375) ELSE NoA("base")],
              [a \in {"s1", "s2"} |-> IF a = "s1" THEN CV(5, 0, 100) ELSE CV(77, 30, 30)],
              \* accounts that staked and signed before the upgrade
              [a \in {"s1", "s2"} |-> IF a = "s1" THEN CVD(1000, 10, 375, 600, 0, 4) ELSE CVD(80, 0, 200, 40, 20, 1)] }
\* legacy minter / distributor parameters: a few shapes (kinds NO / LIN / EXP), ids of the harness table
MinterSets == {1, 2, 3, 4}   \* 4: sequence ids 2,3,4
DistSets == {1, 2}

Mk(hp, xp, vt, tr, ac, mi, di) == [pools |-> (H :> hp) @@ (X :> xp), vtypes |-> vt, traces |-> tr, accts |-> ac, minter |-> mi, dist |-> di, vdenom |-> "uc4e", split |-> FALSE]
AllPre == { Mk(hp, xp, vt, tr, ac, mi, di) : hp \in HPools, xp \in XPools, vt \in VTypeSets, tr \in TraceSets, ac \in AcctSets, mi \in MinterSets, di \in DistSets }
\* quick: the pool / type dimensions in full, one representative of the others
QuickPre == { Mk(hp, xp, vt, {"g1", "f1", "o1"}, ac, 1, 1) : hp \in HPools, xp \in XPools, vt \in VTypeSets, ac \in AcctSets }
             \cup { Mk(<<>>, <<>>, {"Validators", "Advisors"}, tr, CHOOSE a \in AcctSets : TRUE, mi, di) : tr \in TraceSets, mi \in MinterSets, di \in DistSets }

SID(v) == <<TLCFP(v), TLCFP(<<v, 7>>)>>
Edge == PrintT(ToJson([s |-> SID(<<st, phase>>), a |-> act', t |-> SID(<<st', phase'>>), post |-> [st |-> st', phase |-> phase']]))
=============================================================================
