\* S->I: all vesting messages, <= 2 messages per behaviour, time 0..5
SPECIFICATION Spec
CONSTANTS
  P = 100
  Addrs <- AllAddrs
  AddrSeq <- AllAddrSeq
  Setups <- MCSetups
  Denoms = {"uc4e"}
  VDenom = "uc4e"
  VTypes <- MCVTypes
  Tries <- MCTries
  TrySet = "pools"
  Tmax = 6
  MaxMsgs = 3
  Blocked = {"mod"}
  Quirks = {}
INVARIANTS C05_Backed C05_Bounds NoNegBal C17_TraceOnlyForVesting
ACTION_CONSTRAINT Edge
CHECK_DEADLOCK FALSE
