------------------------------ MODULE MBT_Chain ------------------------------
(* Bounded instance of Chain.tla for model checking and model-based testing of the whole application. *)
EXTENDS Chain, Json, TLCExt

NoEnd == -1
Half == P \div 2
Quarter == P \div 4
Lin(id, end, a) == [id |-> id, kind |-> "LIN", end |-> end, amount |-> a, step |-> 0, mult |-> 0]
Exp(id, end, a, s, m) == [id |-> id, kind |-> "EXP", end |-> end, amount |-> a, step |-> s, mult |-> m]
NoM(id, end) == [id |-> id, kind |-> "NO", end |-> end, amount |-> 0, step |-> 0, mult |-> 0]
MCfg(d, st, ps) == [denom |-> d, start |-> st, periods |-> ps]

MCMinterCfgs == {
  MCfg("uc4e", 0, << Lin(1, 4, 16), Exp(2, NoEnd, 8, 2, Half) >>),
  MCfg("uc4e", 2, << Exp(1, NoEnd, 16, 2, Half) >>),
  MCfg("uc4e", 0, << NoM(1, 2), Lin(2, 4, 8), NoM(3, NoEnd) >>) }
MCMinterUpdates == {
  MCfg("uc4e", 0, << Lin(1, 2, 4), Exp(2, NoEnd, 8, 2, P) >>),      \* end possibly in the past, ids 1..2
  MCfg("uc4e", 0, << NoM(1, NoEnd) >>),
  MCfg("uc4e", 0, << Lin(1, NoEnd, 4) >>) }                          \* invalid

Main == [t |-> "MAIN", id |-> ""]
Mod(i) == [t |-> "MOD", id |-> i]
Base(i) == [t |-> "BASE", id |-> i]
IntA(i) == [t |-> "INT", id |-> i]
MCAccs == { Main, Mod("m1"), Mod("m2"), Mod("fc"), Base("b1"), IntA("i1") }
Share(n, x, d) == [name |-> n, share |-> x, dest |-> d]
SD(n, srcs, prim, shs, b) == [name |-> n, sources |-> srcs, primary |-> prim, shares |-> shs, burn |-> b]
MCDistCfgs == {
  << SD("a", <<Main>>, Mod("m1"), <<>>, 0) >>,
  << SD("a", <<Main, Mod("fc")>>, Mod("m1"), << Share("s1", Quarter, Base("b1")) >>, Quarter) >>,
  << SD("a", <<Mod("fc")>>, Main, << Share("s1", Quarter, Mod("m2")) >>, 0), SD("b", <<Main>>, IntA("i1"), <<>>, Quarter),
     SD("c", <<IntA("i1")>>, Mod("m1"), << Share("s2", Half, Base("b1")) >>, 0) >> }
MCDistUpdates == {
  << SD("z", <<Main>>, Mod("m2"), << Share("s9", Half, Mod("m1")) >>, Quarter) >>,
  << SD("z", <<Mod("fc")>>, Mod("m2"), <<>>, 0) >> }                  \* invalid: no MAIN source

C1(n) == [d \in Denoms |-> IF d = "uc4e" THEN n ELSE 0]
\* transaction fees arrive on the fee collector (the main account is a blocked address: nobody can send to it)
MCFeeVecs == { ("MOD-fc" :> C1(8)), ("MOD-fc" :> C1(3)) } \cup (IF "stake" \in Denoms THEN { ("MOD-fc" :> [d \in Denoms |-> IF d = "stake" THEN 6 ELSE 0]) } ELSE {})

\* opaque messages: executed for real by the harness (cfevesting / cfesignature), supply neutral
MCScript == << [m |-> "createpool", amt |-> 10], [m |-> "send", amt |-> 4], [m |-> "split", amt |-> 1], [m |-> "withdraw"], [m |-> "publish"] >>

(* configurations of the trace validation (spec/trace/Trace_Chain.tla): sequences, the recorder logs indices.
   Longer schedules and deeper distribution chains than the model checker enumerates; amounts are powers of two
   so that dozens of blocks stay exact at P = 4096. *)
TrMinterCfgSeq == <<
  MCfg("uc4e", 0, << Lin(1, 4, 16), Exp(2, NoEnd, 8, 2, Half) >>),
  MCfg("uc4e", 2, << Exp(1, NoEnd, 16, 2, Half) >>),
  MCfg("uc4e", 0, << NoM(1, 2), Lin(2, 4, 8), NoM(3, NoEnd) >>),
  MCfg("uc4e", 1, << Exp(1, 7, 32, 2, Half), Lin(2, 15, 24), NoM(3, 18), Exp(4, NoEnd, 8, 4, P) >>),
  MCfg("uc4e", 0, << Lin(1, 3, 12), Lin(2, 7, 4), Exp(3, NoEnd, 64, 4, Quarter) >>),
  MCfg("uc4e", 3, << Lin(1, 9, 6), Exp(2, 20, 40, 4, Half + Quarter), NoM(3, NoEnd) >>),
  MCfg("uc4e", 0, << Exp(1, NoEnd, 64, 1, Half) >>) >>
TrMinterUpdSeq == <<
  MCfg("uc4e", 0, << Lin(1, 2, 4), Exp(2, NoEnd, 8, 2, P) >>),
  MCfg("uc4e", 0, << NoM(1, NoEnd) >>),
  MCfg("uc4e", 0, << Lin(1, NoEnd, 4) >>),
  MCfg("uc4e", 0, << Lin(1, 4, 16), NoM(2, 6), Lin(3, 40, 68), NoM(4, NoEnd) >>),
  MCfg("uc4e", 0, << NoM(2, 30), Exp(3, NoEnd, 16, 2, Half) >>),
  MCfg("stake", 0, << Exp(1, NoEnd, 32, 4, Half) >>) >>
TrDistCfgSeq == <<
  << SD("a", <<Main>>, Mod("m1"), <<>>, 0) >>,
  << SD("a", <<Main, Mod("fc")>>, Mod("m1"), << Share("s1", Quarter, Base("b1")) >>, Quarter) >>,
  << SD("a", <<Mod("fc")>>, Main, << Share("s1", Quarter, Mod("m2")) >>, 0), SD("b", <<Main>>, IntA("i1"), <<>>, Quarter),
     SD("c", <<IntA("i1")>>, Mod("m1"), << Share("s2", Half, Base("b1")) >>, 0) >>,
  << SD("a", <<Main>>, IntA("i1"), << Share("s1", Half, Mod("m1")) >>, 0),
     SD("b", <<IntA("i1"), Mod("fc")>>, Mod("m2"), << Share("s2", Quarter, Base("b1")) >>, Quarter) >>,
  << SD("a", <<Mod("fc")>>, Mod("m2"), << Share("s1", Half, Main), Share("s3", Quarter, Base("b1")) >>, 0),
     SD("b", <<Main>>, Mod("m1"), << Share("s2", Quarter + (Quarter \div 2), IntA("i1")) >>, Quarter \div 2),
     SD("c", <<IntA("i1"), Mod("m2")>>, Base("b1"), <<>>, Half) >>,
  << SD("a", <<Main, Mod("fc"), Mod("m2")>>, Base("b1"), << Share("s1", P \div 8, Mod("m1")) >>, P - Quarter) >> >>
TrDistUpdSeq == <<
  << SD("z", <<Main>>, Mod("m2"), << Share("s9", Half, Mod("m1")) >>, Quarter) >>,
  << SD("z", <<Mod("fc")>>, Mod("m2"), <<>>, 0) >>,
  << SD("y", <<Mod("fc"), Mod("m1")>>, Main, <<>>, 0), SD("z", <<Main>>, Base("b1"), << Share("s9", Half, Mod("m2")) >>, 0) >>,
  << SD("z", <<Main>>, Mod("m2"), << Share("s9", Half, Mod("m1")), Share("s9", Quarter, Base("b1")) >>, 0) >> >>
ASSUME PrintT(ToJson([trcfgs |-> [minter |-> TrMinterCfgSeq, mupd |-> TrMinterUpdSeq, dist |-> TrDistCfgSeq, dupd |-> TrDistUpdSeq]]))

ASSUME PrintT(ToJson([meta |-> [P |-> P, YearTicks |-> YearTicks, Supply0 |-> Supply0, Tmax |-> Tmax, Denoms |-> Denoms]]))
SID(v) == <<TLCFP(v), TLCFP(<<v, 7>>)>>
NZ(f) == [k \in { x \in DOMAIN f : \E d \in Denoms : f[x][d] # 0 } |-> f[k]]
ObsI == [mcfg |-> mcfg, ms |-> ms, nhist |-> Len(hist), now |-> now, total |-> total, dcfg |-> dcfg, bal |-> NZ(bal), rem |-> NZ(rem),
         supply |-> supply, minted |-> minted, burned |-> burned, halted |-> halted, exact |-> (mexact /\ dexact), pcScript |-> pcScript]
Edge == PrintT(ToJson([s |-> SID(ViewNoAct), a |-> act', t |-> SID(ViewNoAct'), post |-> ObsI']))
=============================================================================
