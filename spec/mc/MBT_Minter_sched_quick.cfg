\* S->I: schedule exploration without parameter updates (C02, C19, C18, C12)
SPECIFICATION Spec
CONSTANTS
  P = 4096
  Configs <- ValidCfgs
  UpdateTries <- NoTries
  RejectProbeTimes = {}
  Tmax = 6
  YearTicks = 8
  Supply0 = 1000
  MaxUpdates = 0
  Quirks = {}
  Amounts = {6, 16}
  Ends = {2, 4}
  Starts = {0, 2}
  Steps = {2}
  MultNums = {0, 1, 2}
  MultDen = 2
  MaxPeriods = 2
INVARIANTS TypeOK NeverHalts CurrentPeriodExists StoredParamsValid ScheduleConformance LinearExact CarryOK NonNegBlock
ACTION_CONSTRAINT Edge
CHECK_DEADLOCK FALSE
