\* S->I: parameter updates at any time relative to the schedule (C10, C13)
SPECIFICATION Spec
CONSTANTS
  P = 4096
  Configs <- ValidCfgs
  UpdateTries <- MBTTries
  RejectProbeTimes = {0, 4}
  Tmax = 6
  YearTicks = 8
  Supply0 = 1000
  MaxUpdates = 1
  Quirks = {}
  Amounts = {16}
  Ends = {4}
  Starts = {0, 2}
  Steps = {2}
  MultNums = {1}
  MultDen = 2
  MaxPeriods = 2
INVARIANTS TypeOK NeverHalts CurrentPeriodExists StoredParamsValid
ACTION_CONSTRAINT Edge
CHECK_DEADLOCK FALSE
