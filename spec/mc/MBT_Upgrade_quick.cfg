SPECIFICATION Spec
CONSTANTS
  PreStates <- QuickPre
  HOwner = "H"
  GenesisAddrs = {"g1"}
  FromPoolAddrs = {"f1"}
  ShiftAccounts = {"s1", "s2"}
  D3Y = 1096
  D2Y3M = 821
  D1Y6M = 546
  D2Y = 730
INVARIANTS SolventAfter
PROPERTIES LockedPreserved HistoryPreserved AllOrNothing AccountsKeepAmounts ParamsPreserved
ACTION_CONSTRAINT Edge
CHECK_DEADLOCK FALSE
