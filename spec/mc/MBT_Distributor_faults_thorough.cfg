\* S->I thorough: curated configurations (all hostile shapes), three blocks, every set of at most two faults per block
SPECIFICATION Spec
CONSTANTS
  P = 64
  Configs <- ValidCfgs
  Accs <- TryAccs
  Denoms = {"uc4e"}
  DepositVecs <- DepositsSmall
  FaultSets <- TwoFaults
  MaxBlocks = 3
  UpdateTries <- NoTries
  MaxUpdates = 0
  RejectProbeBlocks = {}
  ModuleIds = {"m1", "m2", "m3"}
  BaseIds = {"b1"}
  Quirks = {}
  ModIdsUsed = {"m1", "m2", "m3"}
  BaseIdsUsed = {"b1"}
  IntIdsUsed = {"i1", "m1"}
  ShareNums = {1, 2}
  ShareDen = 4
  Amts = {3, 10}
  Family = "curated"
INVARIANTS NonNegative BooksMatch Conservation ShareExact PaidUp NeverHalts StoredParamsValid EventsAddUp
ACTION_CONSTRAINT Edge
CHECK_DEADLOCK FALSE
