----------------------------- MODULE MBT_Vesting -----------------------------
(* Model-based-testing instance of Vesting.tla: one JSON line per transition. *)
EXTENDS MC_Vesting, Json, TLCExt

NZC(f) == [k \in { x \in DOMAIN f : ~IsZeroC(f[x]) } |-> f[k]]
ObsI == [now |-> now, bal |-> NZC(bal), modBal |-> modBal,
         pools |-> [o \in { x \in Addrs : pools[x] # <<>> } |-> [i \in DOMAIN pools[o] |-> pools[o][i] @@ [withdrawable |-> Withdrawable(pools[o][i], now)]]],
         acct |-> [a \in { x \in Addrs : acct[x].kind # "none" } |-> acct[a]],
         traces |-> [a \in { x \in Addrs : traces[x].has } |-> traces[a]],
         locked |-> NZC([a \in Addrs |-> LockedC(acct[a], now)]),
         vdenom |-> vdenom, msgs |-> msgs, summary |-> Summary(FALSE), gsummary |-> Summary(TRUE)]
ASSUME PrintT(ToJson([meta |-> [P |-> P, Denoms |-> Denoms, VDenom |-> VDenom, Blocked |-> Blocked, Addrs |-> Addrs]]))
ASSUME PrintT(ToJson([vtypes |-> VTypes]))
ASSUME PrintT(ToJson([setups |-> [s \in Setups |-> [id |-> s.id, bal |-> NZC(s.bal), acct |-> [a \in { x \in Addrs : s.acct[x].kind # "none" } |-> s.acct[a]],
                                                    pools |-> [o \in { x \in Addrs : s.pools[x] # <<>> } |-> s.pools[o]],
                                                    traces |-> [a \in { x \in Addrs : s.traces[x].has } |-> s.traces[a]]]]]))
\* states are referred to by a 64-bit id (two 32-bit TLC fingerprints of the state variables without act)
SID(v) == <<TLCFP(v), TLCFP(<<v, 7>>)>>
Edge == PrintT(ToJson([s |-> SID(ViewNoAct), a |-> act', t |-> SID(ViewNoAct'), post |-> ObsI']))
=============================================================================
