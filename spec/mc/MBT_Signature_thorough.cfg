SPECIFICATION Spec
CONSTANTS
  Addrs <- MCAddrs
  Refs <- MCRefs
  VarKeys <- MCVarKeys
  Links <- MCLinks
  Keys <- MCKeys
  KeyType <- MCKeyType
  Tries <- MCTries
  MaxMsgs = 4
  Existing = {"a2"}
  Quirks = {}
INVARIANTS VerifySound
PROPERTIES WriteOnce NoOverwrite
ACTION_CONSTRAINT Edge
CHECK_DEADLOCK FALSE
