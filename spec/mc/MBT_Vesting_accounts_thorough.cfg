\* S->I thorough: account operations, <= 2 messages per behaviour interleaved with time steps 0..6 (three messages do not finish within the 50 min TLC budget: measured)
SPECIFICATION Spec
CONSTANTS
  P = 100
  Addrs <- AllAddrs
  AddrSeq <- AllAddrSeq
  Setups <- MCSetups
  Denoms = {"uc4e"}
  VDenom = "uc4e"
  VTypes <- MCVTypes
  Tries <- MCTries
  TrySet = "accounts"
  Tmax = 6
  MaxMsgs = 2
  Blocked = {"mod"}
  Quirks = {}
INVARIANTS C05_Backed C05_Bounds NoNegBal C17_TraceOnlyForVesting
ACTION_CONSTRAINT Edge
CHECK_DEADLOCK FALSE
