\* prints only the header lines (meta, configurations of the trace validation) for the trace recorder
SPECIFICATION Spec
CONSTANTS
  P = 256
  MinterCfgs <- MCMinterCfgs
  DistCfgs <- MCDistCfgs
  MinterUpdates <- MCMinterUpdates
  DistUpdates <- MCDistUpdates
  FeeVecs <- MCFeeVecs
  Script <- MCScript
  Tmax = 0
  MaxBlocks = 0
  MaxUpdates = 0
  Supply0 = 1000
  Denoms = {"uc4e", "stake"}
  Accs <- MCAccs
  ModuleIds = {"m1", "m2", "fc"}
  BaseIds = {"b1"}
  YearTicks = 8
ACTION_CONSTRAINT Edge
CHECK_DEADLOCK FALSE
