----------------------------- MODULE MC_Vesting -----------------------------
(* Bounded instances of Vesting.tla: set-ups (genesis) and message attempts. *)
EXTENDS Vesting

CONSTANTS TrySet   \* which family of attempts: "quick" | "full" | "accounts"

C1(n) == Only("uc4e", n)
Fund(n) == [d \in Denoms |-> n]

AllAddrs == {"o1", "o2", "r1", "r2", "g1", "mod"}
AllAddrSeq == <<"o1", "o2", "r1", "r2", "g1", "mod">>
\* trace validation runs longer histories and needs more fresh recipients
TraceAddrs == AllAddrs \cup {"r3", "r4", "r5", "r6", "r7", "r8"}
TraceAddrSeq == AllAddrSeq \o <<"r3", "r4", "r5", "r6", "r7", "r8">>
GenAcct == CV(C1(20), 0, 4)
BaseSetup == [
  bal |-> [a \in Addrs |-> CASE a = "o1" -> Fund(40) [] a = "o2" -> Fund(20) [] a = "g1" -> AddC(C1(20), [d \in Denoms |-> IF d = "uc4e" THEN 0 ELSE 0]) [] OTHER -> ZeroC],
  acct |-> [a \in Addrs |-> CASE a \in {"o1", "o2"} -> BaseAcct [] a = "g1" -> GenAcct [] a = "mod" -> ModAcct [] OTHER -> NoAcct],
  pools |-> [a \in Addrs |-> <<>>],
  traces |-> [a \in Addrs |-> IF a = "g1" THEN Trace(TRUE, FALSE, FALSE) ELSE NoTrace] ]
GenPool == [name |-> "gp", vt |-> "v1", lockStart |-> 0, lockEnd |-> 2, init |-> 20, sent |-> 0, withdrawn |-> 0, genesis |-> TRUE]
Setup1 == BaseSetup @@ [id |-> 1]
Setup2 == [BaseSetup EXCEPT !.pools = [@ EXCEPT !["o1"] = <<GenPool>>]] @@ [id |-> 2]
\* g1 additionally holds a second denomination in vesting (only meaningful with two denominations)
Setup3 == [BaseSetup EXCEPT !.acct = [@ EXCEPT !["g1"] = CV(Fund(20), 0, 4)], !.bal = [@ EXCEPT !["g1"] = Fund(20)]] @@ [id |-> 3]
\* two genesis pools of one owner whose list order is not the order of their lock ends (the earlier pool matures later)
\* (its lock start lies in the future of the first blocks: legal for an imported or upgrade-written pool)
GenPoolLong == [name |-> "gq", vt |-> "v0", lockStart |-> 3, lockEnd |-> 4, init |-> 10, sent |-> 0, withdrawn |-> 0, genesis |-> TRUE]
Setup4 == [BaseSetup EXCEPT !.pools = [@ EXCEPT !["o1"] = <<GenPoolLong, GenPool>>]] @@ [id |-> 4]
\* r2 is an SDK delayed vesting account with 12 locked until t = 3: split / move out of it, sends and creations onto it must be refused
Setup5 == [BaseSetup EXCEPT !.acct = [@ EXCEPT !["r2"] = Delayed(C1(12), 3)], !.bal = [@ EXCEPT !["r2"] = C1(12)]] @@ [id |-> 5]
\* r2 is an SDK permanent locked account
Setup6 == [BaseSetup EXCEPT !.acct = [@ EXCEPT !["r2"] = PermLocked(C1(9))], !.bal = [@ EXCEPT !["r2"] = C1(15)]] @@ [id |-> 6]
TraceSetups == {Setup1, Setup2, Setup3, Setup4, Setup5, Setup6}
MCSetups == IF Cardinality(Denoms) > 1 THEN {Setup2, Setup3}
            ELSE IF TrySet = "pools" THEN {Setup1, Setup4} ELSE {Setup1, Setup2, Setup5, Setup6}

Half == P \div 2
MCVTypes == { [name |-> "v0", lockup |-> 0, vesting |-> 4, free |-> 0],
              [name |-> "v1", lockup |-> 2, vesting |-> 2, free |-> Half],
              [name |-> "v2", lockup |-> 1, vesting |-> 4, free |-> P \div 20] }

CP(o, n, amt, dur, vt) == [m |-> "createpool", o |-> o, n |-> n, amt |-> amt, dur |-> dur, vt |-> vt]
WD(o) == [m |-> "withdraw", o |-> o]
SD(o, to, n, amt, r) == [m |-> "send", o |-> o, to |-> to, n |-> n, amt |-> amt, restart |-> r]
CA(f, t, amt, ds, s, e) == [m |-> "createacc", from |-> f, to |-> t, amt |-> amt, ds |-> ds, ds0 |-> s, de0 |-> e]
SP(f, t, amt, ds) == [m |-> "split", from |-> f, to |-> t, amt |-> amt, ds |-> ds]
MV(f, t) == [m |-> "move", from |-> f, to |-> t]
MD(f, t, ds) == [m |-> "movedenoms", from |-> f, to |-> t, ds |-> ds]
DG(a, amt) == [m |-> "delegate", a |-> a, amt |-> amt]
UD(a, d) == [m |-> "updatedenom", auth |-> a, d |-> d]
U == {"uc4e"}
S(x) == <<x, 0>>
L(n) == <<"lit", n>>

PoolTries == {
  CP("o1", "p", L(10), 2, "v0"), CP("o1", "q", L(4), 4, "v1"), CP("o2", "p", L(5), 2, "v2"),
  CP("o1", "p", S("over"), 2, "v0"), CP("o1", "", L(10), 2, "v0"), CP("o1", "p", S("neg"), 2, "v0"), CP("o1", "p", L(10), 0, "v0"),
  CP("o1", "p", L(10), 2, "nosuch"), CP("o1", "gp", L(10), 2, "v0"), CP("o1", "p", S("zero"), 2, "v0"), CP("g1", "p", L(10), 2, "v0"),
  WD("o1"), WD("o2"), WD("g1") }
SendTries ==
  { SD("o1", "r1", n, S(a), r) : n \in {"p", "gp"}, a \in {"one", "half", "all", "zero"}, r \in BOOLEAN } \cup
  { SD("o1", "r2", "p", S("half"), TRUE), SD("o1", "r2", "gp", S("all"), FALSE), SD("o1", "r2", "q", S("all"), TRUE),
    SD("o1", "o2", "p", S("one"), TRUE), SD("o1", "mod", "p", S("one"), TRUE), SD("o1", "o1", "p", S("one"), TRUE),
    SD("o1", "r1", "gq", S("one"), TRUE), SD("o1", "r1", "gq", S("half"), FALSE),   \* out of the pool whose lock start is still ahead
    SD("o1", "r1", "nosuch", S("one"), TRUE), SD("o1", "r1", "", S("one"), TRUE), SD("o1", "r1", "p", S("over"), TRUE),
    SD("o1", "r1", "p", S("neg"), FALSE), SD("o2", "r1", "p", S("all"), FALSE), SD("g1", "r1", "p", S("one"), TRUE) }
AccTries == {
  CA("o1", "r1", L(5), U, 0, 4), CA("o1", "r1", L(5), U, 2, 2), CA("o1", "r1", L(8), U, -2, 2), CA("o1", "r2", L(6), U, -3, -1),   \* (the last two: start before the block time, whole schedule in the past) CA("o1", "r2", S("all"), U, 1, 3), CA("o1", "r1", L(5), U, 3, 1),
  CA("o1", "r1", S("over"), U, 0, 4), CA("o1", "r1", S("zero"), U, 0, 4), CA("o1", "r1", S("neg"), U, 0, 4),
  CA("o1", "o2", L(5), U, 0, 4), CA("o1", "mod", L(5), U, 0, 4), CA("r2", "r2", L(5), U, 0, 4), CA("r2", "r1", L(5), U, 0, 4),
  CA("g1", "r1", S("all"), U, 0, 2), CA("g1", "r1", S("over"), U, 0, 2) }
SplitTries ==
  { SP("g1", "r2", S(a), U) : a \in {"one", "half", "all", "over", "zero", "allm1"} } \cup
  { SP("r1", "r2", S(a), U) : a \in {"one", "half", "all"} } \cup
  { SP("o1", "r2", S("one"), U), SP("g1", "o2", S("one"), U), SP("g1", "mod", S("one"), U), SP("g1", "g1", S("one"), U), SP("r2", "r1", S("one"), U),
    MV("g1", "r2"), MV("r1", "r2"), MV("o1", "r2"), MV("g1", "o2"), MV("g1", "mod"),
    MD("g1", "r2", U), MD("g1", "r2", {}), MD("r1", "r2", U), MD("o1", "r2", U),
    \* out of r2 (a delayed vesting account in one set-up, absent in the others)
    SP("r2", "r1", S("all"), U), MV("r2", "r1"), MD("r2", "r1", U) }
\* (the denomination update is tried with the current denomination too: accept / reject then depends only on the signer and on whether pools exist)
OtherTries == { DG("g1", S("half")), DG("r1", S("all")), DG("r1", S("half")), DG("g1", L(3)),
                UD("gov", "uc4e"), UD("user", "uc4e"), UD("gov", ""), UD("", "uc4e"), UD("gov", "stake"), UD("user", "stake"), WD("o1") }
\* two denominations: account operations over {uc4e}, {stake}, both
D2 == {"uc4e", "stake"}
TwoDenomTries == {
  CA("o1", "r1", L(6), D2, 0, 4), CA("o1", "r1", L(6), {"stake"}, 0, 4), CA("o1", "r2", S("all"), D2, 0, 2), CA("o1", "r1", S("zero"), D2, 0, 4),
  SP("g1", "r2", S("one"), D2), SP("g1", "r2", S("half"), D2), SP("g1", "r2", S("all"), {"stake"}), SP("g1", "r2", S("over"), D2), SP("g1", "r2", S("half"), {"uc4e"}),
  SP("r1", "r2", S("half"), D2), SP("r1", "r2", S("all"), D2),
  MV("g1", "r2"), MV("r1", "r2"), MD("g1", "r2", {"stake"}), MD("g1", "r2", D2), MD("r1", "r2", {"uc4e"}), MD("g1", "r2", {"nosuch"}),
  DG("g1", S("half")), SD("o1", "r1", "gp", S("half"), TRUE), SD("o1", "r1", "gp", S("all"), TRUE), WD("o1"),
  UD("gov", "stake"), UD("user", "stake"), UD("gov", "uc4e") }

MCTries == CASE TrySet = "pools" -> PoolTries \cup SendTries \cup { DG("r1", S("half")), UD("gov", "uc4e"), UD("user", "uc4e") }
             [] TrySet = "accounts" -> AccTries \cup SplitTries \cup OtherTries \cup { SD("o1", "r1", "gp", S("half"), TRUE), SD("o1", "r1", "gp", S("all"), FALSE) }
             [] TrySet = "two" -> TwoDenomTries
             [] OTHER -> PoolTries \cup SendTries \cup AccTries \cup SplitTries \cup OtherTries
=============================================================================
