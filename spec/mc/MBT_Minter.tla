----------------------------- MODULE MBT_Minter -----------------------------
(* Model-based-testing instance of Minter.tla: TLC enumerates the complete
   bounded transition relation and prints one JSON line per transition; the Go
   harness replays every transition on the real application. *)
EXTENDS MC_Minter, Json, SequencesExt

\* ---- update payloads: valid ones that move the schedule, and one per validation rule broken ----
Lin(id, end, a) == [id |-> id, kind |-> "LIN", end |-> end, amount |-> a, step |-> 0, mult |-> 0]
Exp(id, end, a, s, m) == [id |-> id, kind |-> "EXP", end |-> end, amount |-> a, step |-> s, mult |-> m]
NoM(id, end) == [id |-> id, kind |-> "NO", end |-> end, amount |-> 0, step |-> 0, mult |-> 0]
Half == P \div 2
Cfg(d, st, ps) == [denom |-> d, start |-> st, periods |-> ps]

ValidUpdates == {
  Cfg("uc4e", 0, << Lin(1, 4, 8), NoM(2, NoEnd) >>),                 \* plain two periods
  Cfg("uc4e", 2, << Lin(1, 6, 12), Exp(2, NoEnd, 8, 2, Half) >>),    \* start moved forward
  Cfg("uc4e", 0, << Lin(1, 2, 4), Lin(2, 4, 8), Exp(3, NoEnd, 4, 4, P) >>),   \* ends possibly in the past
  Cfg("uc4e", 0, << Exp(2, NoEnd, 8, 2, Half) >>),                   \* ids start at 2: valid only while state is at 2
  Cfg("stake", 0, << NoM(1, NoEnd) >>),                              \* other (valid) denomination
  Cfg("uc4e", 6, << Exp(1, 8, 4, 2, 0), NoM(2, NoEnd) >>)            \* start in the future of early states
}
InvalidUpdates == {
  Cfg("uc4e", 0, << >>),                                             \* no minters
  Cfg("uc4e", 0, << NoM(0, NoEnd) >>),                               \* first id 0
  Cfg("uc4e", 0, << Lin(1, 4, 8), NoM(3, NoEnd) >>),                 \* gap in ids
  Cfg("uc4e", 0, << Lin(1, 4, 8), NoM(2, 6) >>),                     \* last has an end
  Cfg("uc4e", 0, << NoM(1, NoEnd), NoM(2, NoEnd) >>),                \* non-last without end
  Cfg("uc4e", 4, << Lin(1, 4, 8), NoM(2, NoEnd) >>),                 \* first end not after start
  Cfg("uc4e", 0, << Lin(1, 4, 8), Lin(2, 4, 8), NoM(3, NoEnd) >>),   \* ends not increasing
  Cfg("uc4e", 0, << Lin(1, NoEnd, 8) >>),                            \* linear without end
  Cfg("uc4e", 0, << Lin(1, 4, -1), NoM(2, NoEnd) >>),                \* negative amount
  Cfg("uc4e", 0, << Exp(1, NoEnd, 0, 2, Half) >>),                   \* exponential amount 0
  Cfg("uc4e", 0, << Exp(1, NoEnd, 8, 0, Half) >>),                   \* step 0
  Cfg("uc4e", 0, << Exp(1, NoEnd, 8, 2, -Half) >>),                  \* negative multiplier
  Cfg("", 0, << NoM(1, NoEnd) >>),                                   \* empty denomination
  Cfg("x", 0, << NoM(1, NoEnd) >>)                                   \* not a coin denomination
}
MBTTries ==
  { <<"full", "gov", u>> : u \in ValidUpdates \cup InvalidUpdates } \cup
  { <<"minters", "gov", u>> : u \in ValidUpdates } \cup
  { <<k, a, Cfg("uc4e", 0, << NoM(1, NoEnd), NoM(2, NoEnd) >>)>> : k \in {"full", "minters"}, a \in {"gov"} } \cup
  { <<k, a, Cfg("uc4e", 0, << Lin(1, 4, 8), NoM(2, NoEnd) >>)>> : k \in {"full", "minters"}, a \in {"user", ""} }
NoTries == {}

(* configurations are printed once and referred to by index in the edges *)
Payloads == { x[3] : x \in MBTTries }
CfgUniverse == {NoCfg} \cup ValidCfgs \cup Payloads \cup { [u EXCEPT !.denom = d] : u \in Payloads, d \in ValidDenoms }
CfgSeq == SetToSeq(CfgUniverse)
CfgIndex == [c \in CfgUniverse |-> CHOOSE i \in 1..Len(CfgSeq) : CfgSeq[i] = c]
ASSUME PrintT(ToJson([cfgs |-> CfgSeq]))
ASSUME PrintT(ToJson([meta |-> [P |-> P, YearTicks |-> YearTicks, Supply0 |-> Supply0, Tmax |-> Tmax]]))

ObsI == [ci |-> CfgIndex[cfg], ms |-> ms, hist |-> hist, now |-> now, total |-> total,
         halted |-> halted, exact |-> exact, nupd |-> nupd,
         infl |-> IF Configured /\ ~halted THEN Inflation(cfg, ms, Supply, now) ELSE 0]
ActI(a) == IF a.name = "update" THEN [a EXCEPT !.payload = CfgIndex[a.payload]] ELSE a
Edge == PrintT(ToJson([s |-> ObsI, a |-> ActI(act'), t |-> ObsI']))
=============================================================================
