SPECIFICATION Spec
CONSTANTS
  P = 10
  OvMax = 60
  YMax = 5
INVARIANT InvExact
CHECK_DEADLOCK FALSE
