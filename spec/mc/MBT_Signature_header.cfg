\* prints only the header lines for the trace recorder
SPECIFICATION Spec
CONSTANTS
  Addrs <- MCAddrs
  Refs <- MCRefs
  VarKeys <- MCVarKeys
  Links <- MCLinks
  Keys <- MCKeys
  KeyType <- MCKeyType
  Tries <- MCTries
  MaxMsgs = 0
  Existing = {"a2"}
  Quirks = {}
ACTION_CONSTRAINT Edge
CHECK_DEADLOCK FALSE
