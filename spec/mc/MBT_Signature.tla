--------------------------- MODULE MBT_Signature ---------------------------
EXTENDS Signature, Json, TLCExt

MCAddrs == {"a1", "a2"}
MCRefs == {"r1", "r2"}
MCLinks == {"l1", "l2"}
\* keys that are no reference id's hash but look like one: "<reference id>^U" = the hash in upper case, "^S" = the hash plus a space
\* "<address>:<reference id>^K" = the storage key of that pair's signature (what Query/CreateStorageKey returns)
MCVarKeys == {"r1^U", "r1^S", "a1:r1^K"}
MCKeys == {"k1", "k2"}
MCKeyType == [k \in MCKeys |-> IF k = "k1" THEN "ecdsa" ELSE "rsa"]

Rec(signer, over, alg, cert, wf) == [present |-> TRUE, signer |-> signer, over |-> over, alg |-> alg, cert |-> cert, wellformed |-> wf]
Good(k, a, r, l) == Rec(k, <<a, r, l>>, AlgOf(MCKeyType[k]), k, TRUE)
ST(a, r, rec, json) == [m |-> "store", a |-> a, r |-> r, rec |-> rec, json |-> json]
\* every single-field mutation of a valid record for (a1, r1, l1) under k1, and the same under the RSA key
Mutations(k, ko) == {
  Good(k, "a1", "r1", "l1"),
  Rec(ko, <<"a1", "r1", "l1">>, AlgOf(MCKeyType[k]), k, TRUE),          \* signed by another key
  Rec(k, <<"a2", "r1", "l1">>, AlgOf(MCKeyType[k]), k, TRUE),           \* over another address
  Rec(k, <<"a1", "r2", "l1">>, AlgOf(MCKeyType[k]), k, TRUE),           \* over another reference id
  Rec(k, <<"a1", "r1", "l2">>, AlgOf(MCKeyType[k]), k, TRUE),           \* over another link
  Rec(k, <<"a1", "r1", "l1">>, AlgOf(MCKeyType[ko]), k, TRUE),          \* wrong algorithm for the key
  Rec(k, <<"a1", "r1", "l1">>, "dsaWithSha256", k, TRUE),               \* supported name, wrong algorithm
  Rec(k, <<"a1", "r1", "l1">>, "bogus", k, TRUE),                       \* unsupported algorithm
  Rec(k, <<"a1", "r1", "l1">>, AlgOf(MCKeyType[k]), ko, TRUE),          \* certificate of another key
  Rec(k, <<"a1", "r1", "l1">>, AlgOf(MCKeyType[k]), "nocert", TRUE),    \* certificate field is not a certificate
  Rec(k, <<"a1", "r1", "l1">>, AlgOf(MCKeyType[k]), k, FALSE)           \* signature is not base64
}
MCTries ==
  { [m |-> "publish", r |-> r, l |-> l] : r \in MCRefs, l \in MCLinks } \cup
  { [m |-> "publish", r |-> "r1^U", l |-> "l2"], [m |-> "publish", r |-> "r1^S", l |-> "l2"], [m |-> "publish", r |-> "r1^U", l |-> "l1"],
    [m |-> "publish", r |-> "a1:r1^K", l |-> "l1"] } \cup
  { ST("a1", "r1", rec, "ok") : rec \in Mutations("k1", "k2") \cup Mutations("k2", "k1") } \cup
  { ST("a2", "r1", Good("k1", "a2", "r1", "l1"), "ok"), ST("a1", "r2", Good("k2", "a1", "r2", "l2"), "ok"),
    ST("a1", "r1", Good("k1", "a1", "r1", "l1"), "malformed"), ST("a1", "r1", [present |-> TRUE, signer |-> "", over |-> <<"", "", "">>, alg |-> "", cert |-> "", wellformed |-> TRUE], "missingfields") } \cup
  { [m |-> "createaccount", a |-> a, pk |-> pk] : a \in {"a1", "a2", "malformed"}, pk \in {"pk1", "malformed"} }

\* the wider universe of the trace validation (spec/trace/Trace_Signature.tla)
TrAddrs == {"a1", "a2", "a3"}
TrRefs == {"r1", "r2", "r3", "r4"}
TrLinks == {"l1", "l2", "l3", "l4"}
TrKeys == {"k1", "k2", "k3"}   \* k3: an RSA key of another size (3072 bits)
TrKeyType == [k \in TrKeys |-> IF k = "k1" THEN "ecdsa" ELSE "rsa"]
TrVarKeys == {"r1^U", "r1^S", "r2^U", "a1:r1^K", "a3:r2^K"}
ASSUME PrintT(ToJson([trmeta |-> [Addrs |-> TrAddrs, Refs |-> TrRefs, Links |-> TrLinks, Keys |-> TrKeys, VarKeys |-> TrVarKeys]]))

ASSUME PrintT(ToJson([meta |-> [Addrs |-> MCAddrs, Refs |-> MCRefs, Links |-> MCLinks, Keys |-> MCKeys, VarKeys |-> MCVarKeys]]))
SID(v) == <<TLCFP(v), TLCFP(<<v, 7>>)>>
NZ(f, z) == [k \in { x \in DOMAIN f : f[x] # z } |-> f[k]]
ObsI == [links |-> NZ(links, None),
         sigs |-> [a \in { x \in Addrs : \E r \in Refs : sigs[<<x, r>>].present } |-> [r \in { y \in Refs : sigs[<<a, y>>].present } |-> sigs[<<a, r>>]]],
         accts |-> accts, msgs |-> msgs]
Edge == PrintT(ToJson([s |-> SID(ViewNoAct), a |-> act', t |-> SID(ViewNoAct'), post |-> ObsI']))
=============================================================================
