\* S->I: schedule exploration without parameter updates, 1..3 periods
SPECIFICATION Spec
CONSTANTS
  P = 4096
  Configs <- ValidCfgs
  UpdateTries <- NoTries
  RejectProbeTimes = {}
  Tmax = 8
  YearTicks = 8
  Supply0 = 1000
  MaxUpdates = 0
  Quirks = {}
  Amounts = {6, 16}
  Ends = {2, 4, 6}
  Starts = {0, 2}
  Steps = {2, 4}
  MultNums = {0, 1, 2}
  MultDen = 2
  MaxPeriods = 3
INVARIANTS TypeOK NeverHalts CurrentPeriodExists StoredParamsValid ScheduleConformance LinearExact CarryOK NonNegBlock
ACTION_CONSTRAINT Edge
CHECK_DEADLOCK FALSE
