SPECIFICATION Spec
CONSTANTS
  Shapes <- MCShapes
  Classes <- MCClasses
  Invalid <- MCInvalid
  States = {"empty", "populated"}
INVARIANTS NoPanicOutcome
ACTION_CONSTRAINT Edge
CHECK_DEADLOCK FALSE
VIEW ViewWorld
