------------------------------ MODULE MC_Split ------------------------------
(* Exhaustive evaluation of the split arithmetic (VestingMath) over all small inputs:
   the reference (QuoTruncate) unlocks exactly u in every case and preserves the schedule
   up to 3 units; the cases in which the rounding variant (Dec.Quo) unlocks something else
   are printed as witnesses - the numeric stage lifts them to real scale (P = 10^18) and
   tries them on the real code. *)
EXTENDS VestingMath, Json, TLC, FiniteSets

CONSTANTS OvMax, YMax
VARIABLE done

Cases == { c \in (1..OvMax) \X (1..YMax) \X (2..YMax) \X (1..OvMax) :
             c[2] < c[3] /\ c[4] <= Vesting1(c[1], 0, c[3], c[2]) }
RefExact == \A c \in Cases : Unlocked(c[1], 0, c[3], c[2], c[4], FALSE) = c[4]
RefDrift == \A c \in Cases : \A t \in c[2]..(c[3] + 1) :
               LET ov2 == SplitOVq(c[1], 0, c[3], c[2], c[4], FALSE)
                   d == Vesting1(ov2, 0, c[3], t) + Vesting1(c[4], c[2], c[3], t) - Vesting1(c[1], 0, c[3], t)
               IN d >= -3 /\ d <= 3
RefNeverNegative == \A c \in Cases : SplitOVq(c[1], 0, c[3], c[2], c[4], FALSE) >= 0
Witnesses == { c \in Cases : Unlocked(c[1], 0, c[3], c[2], c[4], TRUE) # c[4] }
ASSUME PrintT(ToJson([witnesses |-> Witnesses, cases |-> Cardinality(Cases), P |-> P]))

Init == done = FALSE
Next == done = FALSE /\ done' = TRUE
Spec == Init /\ [][Next]_done
InvExact == RefExact /\ RefNeverNegative
\* the drift bound needs a finer decimal than P = 10 (at P = 10 the vesting fraction itself has one digit)
InvDrift == RefExact /\ RefDrift
=============================================================================
