\* S->I: the four parameter-update messages on curated configurations (C13), then a block on the new parameters
SPECIFICATION Spec
CONSTANTS
  P = 64
  Configs <- ValidCfgs
  Accs <- TryAccs
  Denoms = {"uc4e"}
  DepositVecs <- DepositsSmall
  FaultSets <- NoFaults
  MaxBlocks = 2
  UpdateTries <- MBTTriesP
  MaxUpdates = 1
  RejectProbeBlocks = {0, 1}
  ModuleIds = {"m1", "m2", "m3"}
  BaseIds = {"b1"}
  Quirks = {}
  ModIdsUsed = {"m1", "m2", "m3"}
  BaseIdsUsed = {"b1"}
  IntIdsUsed = {"i1", "m1"}
  ShareNums = {1, 2}
  ShareDen = 4
  Amts = {10}
  Family = "curated"
INVARIANTS NonNegative BooksMatch Conservation ShareExact NeverHalts StoredParamsValid EventsAddUp
ACTION_CONSTRAINT Edge
CHECK_DEADLOCK FALSE
