\* S->I: account operations with two denominations in vesting (create, split, move, move by denominations)
SPECIFICATION Spec
CONSTANTS
  P = 100
  Addrs <- AllAddrs
  AddrSeq <- AllAddrSeq
  Setups <- MCSetups
  Denoms = {"uc4e", "stake"}
  VDenom = "uc4e"
  VTypes <- MCVTypes
  Tries <- MCTries
  TrySet = "two"
  Tmax = 4
  MaxMsgs = 2
  Blocked = {"mod"}
  Quirks = {}
INVARIANTS C05_Backed C05_Bounds NoNegBal C17_TraceOnlyForVesting
ACTION_CONSTRAINT Edge
CHECK_DEADLOCK FALSE
