\* prints only the header lines (meta, vesting types, set-ups) for the trace recorder
SPECIFICATION Spec
CONSTANTS
  P = 100
  Addrs <- TraceAddrs
  AddrSeq <- TraceAddrSeq
  Setups <- TraceSetups
  Denoms = {"uc4e", "stake"}
  VDenom = "uc4e"
  VTypes <- MCVTypes
  Tries <- MCTries
  TrySet = "pools"
  Tmax = 0
  MaxMsgs = 0
  Blocked = {"mod"}
  Quirks = {}
ACTION_CONSTRAINT Edge
CHECK_DEADLOCK FALSE
