SPECIFICATION Spec
CONSTANTS
  P = 4096
  MinterCfgs <- MCMinterCfgs
  DistCfgs <- MCDistCfgs
  MinterUpdates <- MCMinterUpdates
  DistUpdates <- MCDistUpdates
  FeeVecs <- MCFeeVecs
  Script <- MCScript
  Tmax = 5
  MaxBlocks = 2
  MaxUpdates = 1
  Supply0 = 1000
  Denoms = {"uc4e", "stake"}
  Accs <- MCAccs
  ModuleIds = {"m1", "m2", "fc"}
  BaseIds = {"b1"}
  YearTicks = 8
INVARIANTS SupplyLedger BooksMatch NeverHalts CurrentPeriodExists
PROPERTIES SupplyOnlyInBlocks SupplyDeltaIsMintMinusBurn
ACTION_CONSTRAINT Edge
CHECK_DEADLOCK FALSE
