----------------------------- MODULE MBT_Hostile -----------------------------
EXTENDS Hostile, Json, TLCExt

MCClasses == [
  addr    |-> {"EXISTING", "ABSENT", "EMPTY", "MALFORMED", "MODULE", "VESTING"},
  authority |-> {"GOV", "USER", "EMPTY", "MALFORMED"},
  int     |-> {"NIL", "NEG", "ZERO", "ONE", "BALANCE", "HUGE"},
  coins   |-> {"NIL", "EMPTY", "NEG", "ZERO", "VALID", "DUP", "NILAMOUNT", "HUGE", "BADDENOM"},
  name    |-> {"EMPTY", "KNOWN", "UNKNOWN", "LONG"},
  dur     |-> {"NEG", "ZERO", "POS", "HUGE"},
  time    |-> {"NEG", "ZERO", "NOW", "MAX"},
  dec     |-> {"NIL", "NEG", "ZERO", "HALF", "ONE", "HUGE"},
  denom   |-> {"EMPTY", "VALID", "ONECHAR", "SPACES"},
  denoms  |-> {"NIL", "EMPTYLIST", "VALID", "DUP", "EMPTYDENOM", "UNKNOWN"},
  bool    |-> {"T", "F"},
  minters |-> {"NIL", "EMPTY", "NILELEM", "NILCONFIG", "UNRESOLVEDANY", "VALID", "NILAMOUNT", "NEGAMOUNT", "ZEROSTEP", "HUGE", "NILMULT", "NOEND"},
  subdist |-> {"NIL", "EMPTYNAME", "NILSOURCE", "NOSOURCES", "NILSHARE", "NILBURN", "VALID", "BADACCOUNT", "HUGE"},
  subdists |-> {"NIL", "EMPTY", "VALID", "NILSOURCE", "NILSHARE", "NILBURN", "DUPNAMES"},
  json    |-> {"EMPTY", "MALFORMED", "NONSTRING", "VALID", "DEEP"},
  key     |-> {"EMPTY", "KNOWN", "UNKNOWN", "LONG"},
  ref     |-> {"EMPTY", "KNOWN", "UNKNOWN", "SHORT", "LONG"},
  pubkey  |-> {"EMPTY", "MALFORMED", "VALID", "WRONGTYPE"},
  req     |-> {"NIL", "SET"} ]

MCInvalid == [
  addr |-> {"EMPTY", "MALFORMED"}, authority |-> {"USER", "EMPTY", "MALFORMED"}, int |-> {"NIL", "NEG"}, coins |-> {"NIL", "NEG", "NILAMOUNT"},
  name |-> {}, dur |-> {}, time |-> {}, dec |-> {"NIL", "NEG", "ONE", "HUGE"}, denom |-> {}, denoms |-> {}, bool |-> {},
  \* (a nil amount / multiplier cannot be carried inside an Any: packing marshals it as zero, as decoding from the wire would)
  minters |-> {"NIL", "EMPTY", "NILELEM", "NILCONFIG", "UNRESOLVEDANY", "NEGAMOUNT", "ZEROSTEP"},
  subdist |-> {"NIL", "EMPTYNAME", "NILSOURCE", "NOSOURCES", "NILSHARE", "NILBURN", "BADACCOUNT"}, subdists |-> {"NILSOURCE", "NILSHARE", "NILBURN", "DUPNAMES"},
  json |-> {}, key |-> {}, ref |-> {}, pubkey |-> {}, req |-> {"NIL"} ]

MCShapes == [
  \* cfevesting messages
  msg_createpool   |-> <<"addr", "name", "int", "dur", "name">>,
  msg_withdraw     |-> <<"addr">>,
  msg_send         |-> <<"addr", "addr", "name", "int", "bool">>,
  msg_createacc    |-> <<"addr", "addr", "coins", "time", "time">>,
  msg_split        |-> <<"addr", "addr", "coins">>,
  msg_move         |-> <<"addr", "addr">>,
  msg_movedenoms   |-> <<"addr", "addr", "denoms">>,
  msg_updatedenom  |-> <<"authority", "denom">>,
  \* cfeminter messages
  msg_minterparams |-> <<"authority", "denom", "time", "minters">>,
  msg_minters      |-> <<"authority", "time", "minters">>,
  \* cfedistributor messages
  msg_distparams   |-> <<"authority", "subdists">>,
  msg_distsub      |-> <<"authority", "subdist">>,
  msg_distshare    |-> <<"authority", "name", "name", "dec">>,
  msg_distburn     |-> <<"authority", "name", "dec">>,
  \* cfesignature messages
  msg_publish      |-> <<"addr", "key", "key">>,
  msg_store        |-> <<"addr", "key", "json">>,
  msg_createaccount |-> <<"addr", "addr", "pubkey">>,
  \* queries
  q_vesting_params |-> <<"req">>, q_vesting_type |-> <<"req">>, q_vesting_pools |-> <<"req", "addr">>, q_vesting_summary |-> <<"req">>, q_vesting_gsummary |-> <<"req">>,
  q_minter_params |-> <<"req">>, q_minter_state |-> <<"req">>, q_minter_inflation |-> <<"req">>,
  q_dist_params |-> <<"req">>, q_dist_states |-> <<"req">>,
  q_sig_params |-> <<"req">>, q_sig_storagekey |-> <<"req", "addr", "ref">>, q_sig_verify |-> <<"req", "addr", "ref">>, q_sig_accountinfo |-> <<"req", "addr">>,
  q_sig_createrefid |-> <<"req", "addr">>, q_sig_createlink |-> <<"req", "ref", "key">>, q_sig_getlink |-> <<"req">>, q_sig_verifylink |-> <<"req">> ]

SID(v) == <<TLCFP(v), TLCFP(<<v, 7>>)>>
Edge == PrintT(ToJson([s |-> SID(world), a |-> act', t |-> SID(world'), post |-> [world |-> world']]))
=============================================================================
