SPECIFICATION Spec
CONSTANTS
  P = 100
  OvMax = 40
  YMax = 5
INVARIANT InvDrift
CHECK_DEADLOCK FALSE
