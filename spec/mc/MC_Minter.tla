----------------------------- MODULE MC_Minter -----------------------------
(* Bounded instances of Minter.tla.  The configuration families are generated
   here so that the .cfg files only pick sizes. *)
EXTENDS Minter

CONSTANTS Amounts,   \* amounts used by linear / exponential periods
          Ends,      \* candidate period end times
          Starts,    \* candidate start times
          Steps,     \* exponential step durations
          MultNums,  \* multipliers as numerators over MultDen
          MultDen,
          MaxPeriods

Mults == { (m * P) \div MultDen : m \in MultNums }

\* period shapes without id / end
Shapes ==
  { [kind |-> "NO", amount |-> 0, step |-> 0, mult |-> 0] } \cup
  { [kind |-> "LIN", amount |-> a, step |-> 0, mult |-> 0] : a \in Amounts \cup {0} } \cup
  { [kind |-> "EXP", amount |-> a, step |-> s, mult |-> m] : a \in Amounts, s \in Steps, m \in Mults }

MkPeriod(sh, id, end) == [id |-> id, kind |-> sh.kind, end |-> end, amount |-> sh.amount, step |-> sh.step, mult |-> sh.mult]

\* strictly increasing end sequences of length n-1 above start
RECURSIVE EndSeqs(_, _)
EndSeqs(n, lo) == IF n = 0 THEN { <<>> }
                  ELSE UNION { { <<e>> \o r : r \in EndSeqs(n - 1, e) } : e \in { x \in Ends : x > lo } }

CfgsOfLen(n, first) ==
  UNION { UNION { { [denom |-> "uc4e", start |-> st,
                     periods |-> [i \in 1..n |-> MkPeriod(shs[i], first + i - 1, IF i = n THEN NoEnd ELSE es[i])]]
                    : shs \in [1..n -> Shapes] }
                  : es \in EndSeqs(n - 1, st) }
          : st \in Starts }

AllCfgs == UNION { CfgsOfLen(n, 1) : n \in 1..MaxPeriods }
ValidCfgs == { c \in AllCfgs : ValidCfg(c) }
=============================================================================
