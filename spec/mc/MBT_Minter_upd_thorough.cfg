\* S->I: up to two parameter updates at any time relative to the schedule
SPECIFICATION Spec
CONSTANTS
  P = 4096
  Configs <- ValidCfgs
  UpdateTries <- MBTTries
  RejectProbeTimes = {0, 2, 4}
  Tmax = 7
  YearTicks = 8
  Supply0 = 1000
  MaxUpdates = 2
  Quirks = {}
  Amounts = {16}
  Ends = {2, 4}
  Starts = {0, 2}
  Steps = {2}
  MultNums = {1, 2}
  MultDen = 2
  MaxPeriods = 2
INVARIANTS TypeOK NeverHalts CurrentPeriodExists StoredParamsValid
ACTION_CONSTRAINT Edge
CHECK_DEADLOCK FALSE
