\* Exhaustive model check of the emission schedule: 1..2 periods, thirds and halves, all block partitions of 0..10
SPECIFICATION Spec
CONSTANTS
  P = 100
  Configs <- ValidCfgs
  UpdateTries = {}
  RejectProbeTimes = {}
  Tmax = 10
  YearTicks = 8
  Supply0 = 1000
  MaxUpdates = 0
  Quirks = {}
  Amounts = {3, 7, 10}
  Ends = {2, 4, 6, 8}
  Starts = {0, 2}
  Steps = {2, 3, 4}
  MultNums = {0, 1, 2}
  MultDen = 2
  MaxPeriods = 2
INVARIANTS TypeOK ScheduleConformance LinearExact CarryOK NonNegBlock NeverHalts CurrentPeriodExists StoredParamsValid InflationZeroCases
PROPERTIES Monotone ExportNeutral MintEventIsDelta InflationMatchesEmission
VIEW ViewNoAct
CHECK_DEADLOCK FALSE
