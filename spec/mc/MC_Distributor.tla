--------------------------- MODULE MC_Distributor ---------------------------
(* Bounded instances of Distributor.tla: configuration families, deposits, fault patterns. *)
EXTENDS Distributor

CONSTANTS ModIdsUsed, BaseIdsUsed, IntIdsUsed,  \* ids from which accounts are formed
          ShareNums, ShareDen,                  \* share values as numerators over ShareDen
          Amts,                                 \* deposit amounts
          Family                                \* which configuration family: "curated" | "single" | "chain"

Main == [t |-> "MAIN", id |-> ""]
Mod(i) == [t |-> "MOD", id |-> i]
Base(i) == [t |-> "BASE", id |-> i]
IntA(i) == [t |-> "INT", id |-> i]
AllAccs == {Main} \cup { Mod(i) : i \in ModIdsUsed } \cup { Base(i) : i \in BaseIdsUsed } \cup { IntA(i) : i \in IntIdsUsed }

Sh(x) == (x * P) \div ShareDen
Share(n, x, d) == [name |-> n, share |-> Sh(x), dest |-> d]
SD(n, srcs, prim, shs, b) == [name |-> n, sources |-> srcs, primary |-> prim, shares |-> shs, burn |-> Sh(b)]

\* ---- family "single": every single sub-distributor over <= 2 ordered sources, a primary, <= 2 shares, burn ----
SrcLists(u) == { <<a>> : a \in AllAccs } \cup { <<a, b>> : a \in AllAccs, b \in AllAccs }
ShareLists(n) == { <<>> } \cup { << Share(n \o "_s1", x, d) >> : x \in ShareNums, d \in AllAccs }
                 \cup { << Share(n \o "_s1", x, d), Share(n \o "_s2", y, e) >> : x \in ShareNums, y \in ShareNums, d \in AllAccs, e \in AllAccs }
Singles(u) == { << SD("a", s, p, sh, b) >> : s \in SrcLists(0), p \in AllAccs, sh \in ShareLists("a"), b \in ShareNums \cup {0} }

\* ---- family "chain": two sub-distributors, the second fed by the main or an internal account ----
SmallShares(n) == { <<>> } \cup { << Share(n \o "_s1", x, d) >> : x \in ShareNums, d \in AllAccs }
Chains(u) == { << SD("a", s1, p1, sh1, b1), SD("b", s2, p2, sh2, 0) >> :
              s1 \in SrcLists(0), p1 \in AllAccs, sh1 \in SmallShares("a"), b1 \in {0} \cup ShareNums,
              s2 \in SrcLists(0), p2 \in AllAccs, sh2 \in SmallShares("b") }

\* ---- family "curated": hand-picked shapes, including the hostile ones named in the property ----
M1 == Mod("m1")  M2 == Mod("m2")  M3 == Mod("m3")
B1 == Base("b1") I1 == IntA("i1")  IM == IntA("m1")     \* IM: internal account named like module account m1
H == ShareDen \div 2   Q == ShareDen \div 4
Curated == {
  << SD("a", <<Main>>, M1, <<>>, 0) >>,                                            \* default shape
  << SD("a", <<Main>>, M1, << Share("s1", Q, M2) >>, Q) >>,                        \* share + burn
  << SD("a", <<Main>>, B1, << Share("s1", H, M1) >>, 0) >>,                        \* base account primary
  << SD("a", <<M1, Main>>, M2, <<>>, 0) >>,                                        \* non-main source before main
  << SD("a", <<Main, M1>>, M2, << Share("s1", Q, B1) >>, 0) >>,                    \* same, main first
  << SD("a", <<B1, M1>>, M2, <<>>, Q), SD("b", <<Main>>, M3, <<>>, 0) >>,          \* two swept sources
  << SD("a", <<M1>>, M2, << Share("s1", H, Main) >>, 0), SD("b", <<Main>>, M3, <<>>, 0) >>,   \* share to MAIN
  << SD("a", <<M1>>, Main, << Share("s1", Q, M2) >>, 0), SD("b", <<Main>>, M3, <<>>, Q) >>,   \* primary MAIN
  << SD("a", <<Main>>, I1, << Share("s1", Q, M1) >>, 0), SD("b", <<I1>>, M2, << Share("s2", H, B1) >>, 0) >>, \* internal pass-through
  << SD("a", <<Main>>, IM, << Share("s1", H, M1) >>, 0), SD("b", <<IM>>, M2, <<>>, 0) >>,     \* INT named like MOD m1
  << SD("a", <<Main>>, M1, << Share("s1", H, IM) >>, 0), SD("b", <<IM>>, M2, <<>>, 0) >>,     \* same, roles swapped
  << SD("a", <<Main>>, I1, <<>>, 0), SD("b", <<I1, M1>>, M2, << Share("s2", Q, M3) >>, Q) >>,  \* internal + swept source
  \* a destination of an earlier sub-distributor is a source of a later one together with MAIN (its leftover is re-queued in the same block)
  << SD("a", <<Main>>, I1, << Share("s1", Q, M1) >>, 0), SD("b", <<I1, Main>>, M2, <<>>, 0) >>,
  << SD("a", <<Main>>, I1, << Share("s1", Q, M1) >>, 0), SD("b", <<Main, I1>>, M2, << Share("s2", Q, B1) >>, Q) >>,
  << SD("a", <<Main>>, M1, << Share("s1", Q, B1) >>, 0), SD("b", <<M1, Main>>, M2, <<>>, 0) >>,
  << SD("a", <<Main>>, M1, << Share("s1", Q, B1) >>, Q), SD("b", <<Main, M1>>, M2, << Share("s2", Q, M3) >>, 0) >>,
  << SD("a", <<Main, B1>>, M1, << Share("s1", Q, M2) >>, 0), SD("b", <<M2, Main>>, M3, <<>>, 0) >>,
  << SD("a", <<Main>>, M1, << Share("s1", Q, M2), Share("s2", Q, M3) >>, Q),
     SD("b", <<M1>>, B1, << Share("s3", H, Main) >>, 0), SD("c", <<Main>>, M3, <<>>, 0) >>      \* 3-chain, README shape
}

FamilyCfgs == CASE Family = "single" -> Singles(0)
                [] Family = "chain" -> Chains(0)
                [] Family = "all" -> Curated \cup Singles(0) \cup Chains(0)
                [] OTHER -> Curated
ValidCfgs == { c \in FamilyCfgs : ValidConfig(c) }

\* ---- deposits: onto one or two bank accounts, one or all denominations ----
CoinVals == [Denoms -> Amts \cup {0}] \ { [d \in Denoms |-> 0] }
BankAccs == { a \in AllAccs : IsBank(a) } \cup {Main}
Dep1 == { (Key(a) :> c) : a \in BankAccs, c \in CoinVals }
Dep2(u) == { (Key(a) :> c) @@ (Key(b) :> e) : a \in BankAccs, b \in BankAccs, c \in CoinVals, e \in CoinVals }
DepositsSmall == Dep1
DepositsAll == Dep1 \cup Dep2(0)

NoFaults == { {} }
\* every single fault and the pair "all payouts fail"
OneFault == { {} } \cup { {x} : x \in { "sweep:" \o Key(a) : a \in { b \in AllAccs : IsBank(b) } } \cup { "pay:" \o Key(a) : a \in { b \in AllAccs : IsBank(b) } } \cup { "pay:BURN" } }
\* every set of at most two faults (a block in which two transfers fail: e.g. a sweep and a payout, two payouts)
FaultAtoms == { "sweep:" \o Key(a) : a \in { b \in AllAccs : IsBank(b) } } \cup { "pay:" \o Key(a) : a \in { b \in AllAccs : IsBank(b) } } \cup { "pay:BURN" }
TwoFaults == { {} } \cup { {x, y} : x \in FaultAtoms, y \in FaultAtoms }
NoTries == {}
=============================================================================
