--------------------------- MODULE MBT_Distributor ---------------------------
(* Model-based-testing instance of Distributor.tla: one JSON line per transition. *)
EXTENDS MC_Distributor, Json, SequencesExt

\* ---- update attempts (C13): valid ones, one per validation rule broken, wrong signers ----
UP(a, subs) == [kind |-> "params", auth |-> a, subs |-> subs]
US(a, sd) == [kind |-> "sub", auth |-> a, sd |-> sd]
UB(a, n, v) == [kind |-> "burn", auth |-> a, sdname |-> n, value |-> v]
UH(a, n, d, v) == [kind |-> "share", auth |-> a, sdname |-> n, dest |-> d, value |-> v]
Bad(t, i) == [t |-> t, id |-> i]
MBTTries == {
  UP("gov", << SD("a", <<Main>>, M2, << Share("s1", Q, M1) >>, 0) >>),                      \* replace everything
  UP("gov", << SD("x", <<M1>>, Main, <<>>, Q), SD("y", <<Main>>, M3, <<>>, 0) >>),          \* new names, primary MAIN
  UP("user", << SD("a", <<Main>>, M2, <<>>, 0) >>),                                          \* wrong signer
  UP("", << SD("a", <<Main>>, M2, <<>>, 0) >>),
  UP("gov", << >>),                                                                          \* empty list: no MAIN source
  UP("gov", << SD("a", <<M1>>, M2, <<>>, 0) >>),                                             \* no MAIN source
  UP("gov", << SD("a", <<Main>>, Main, <<>>, 0) >>),                                         \* MAIN twice in one sub-distributor
  UP("gov", << SD("a", <<Main>>, I1, <<>>, 0) >>),                                           \* internal destination never a source
  UP("gov", << SD("a", <<Main>>, M1, <<>>, 0), SD("a", <<M1>>, M2, <<>>, 0) >>),             \* duplicate names
  UP("gov", << SD("a", <<Main>>, M1, << Share("s1", H, M2), Share("s1", Q, M3) >>, 0) >>),   \* duplicate share names
  UP("gov", << SD("a", <<Main>>, M1, << Share("a_primary", H, M2) >>, 0) >>),                \* reserved share name
  UP("gov", << SD("x", <<M1>>, Main, <<>>, Q), SD("y", <<Main>>, M3, << Share("x_primary", Q, M2) >>, 0) >>),   \* ... of an earlier sub-distributor
  UP("gov", << SD("x", <<M1>>, Main, << Share("y_primary", Q, M2) >>, Q), SD("y", <<Main>>, M3, <<>>, 0) >>),   \* ... of a later one
  UP("gov", << SD("a", <<Main>>, M1, << Share("s1", H, M2), Share("s2", H, M3) >>, 0) >>),   \* shares sum to 1
  UP("gov", << SD("a", <<Main>>, M1, << Share("s1", H, M2) >>, H) >>),                       \* shares + burn = 1
  \* a share whose destination is MAIN counts like any other: 1/2 to MAIN + 3/4 elsewhere is above 1 although the part that leaves is not
  UP("gov", << SD("x", <<M1>>, M2, << Share("s1", H, Main), Share("s2", H + Q, M3) >>, 0), SD("y", <<Main>>, M3, <<>>, 0) >>),
  UP("gov", << SD("x", <<M1>>, M2, << Share("s1", H, Main) >>, H + Q), SD("y", <<Main>>, M3, <<>>, 0) >>),
  UP("gov", << SD("x", <<M1>>, M2, << Share("s1", Q, Main), Share("s2", H, M3) >>, 0), SD("y", <<Main>>, M3, <<>>, 0) >>),   \* (valid: 3/4)
  UP("gov", << SD("", <<Main>>, M1, <<>>, 0) >>),                                            \* empty name
  UP("gov", << SD("a", <<>>, M1, <<>>, 0) >>),                                               \* no sources
  UP("gov", << SD("a", <<Main>>, Bad("MOD", "nomodule"), <<>>, 0) >>),                       \* unknown module account
  UP("gov", << SD("a", <<Main>>, Bad("BASE", "notanaddress"), <<>>, 0) >>),                  \* malformed base address
  UP("gov", << SD("a", <<Main>>, Bad("INT", ""), <<>>, 0) >>),                               \* internal without id
  UP("gov", << SD("a", <<Main>>, Bad("WRONG", "m1"), <<>>, 0) >>),                           \* unknown account type
  US("gov", SD("a", <<Main>>, M3, << Share("s9", Q, M2) >>, Q)),                             \* replace sub-distributor a
  US("gov", SD("b", <<Main>>, M3, <<>>, 0)),                                                 \* replace b (if present)
  US("gov", SD("zz", <<Main>>, M3, <<>>, 0)),                                                \* not found
  US("user", SD("a", <<Main>>, M3, <<>>, 0)),
  US("gov", SD("a", <<M1>>, M3, <<>>, 0)),                                                   \* may drop the only MAIN source
  US("gov", SD("a", <<Main>>, M3, << Share("s1", H, M2) >>, H)),                             \* invalid in itself
  UB("gov", "a", Q), UB("gov", "a", 0), UB("gov", "b", H), UB("gov", "zz", Q), UB("user", "a", Q),
  UB("gov", "a", ShareDen), UB("gov", "a", -1), UB("gov", "", Q),
  UH("gov", "a", "s1", Q), UH("gov", "a", "s1", 0), UH("gov", "b", "s2", H), UH("gov", "a", "nosuch", Q),
  UH("user", "a", "s1", Q), UH("gov", "a", "s1", ShareDen), UH("gov", "a", "s1", -1), UH("gov", "", "s1", Q), UH("gov", "a", "", Q)
}
\* share / burn values above are numerators over ShareDen: convert
Conv(u) == IF u.kind \in {"burn", "share"} THEN [u EXCEPT !.value = Sh(u.value)] ELSE u
MBTTriesP == { Conv(u) : u \in MBTTries }

TryAccs == AllAccs \cup { Bad("MOD", "nomodule"), Bad("BASE", "notanaddress"), Bad("INT", ""), Bad("WRONG", "m1") }

(* configurations are printed once and referred to by index; configurations that only arise from updates are printed in full *)
CfgSeq == SetToSeq(ValidCfgs)
CfgIndex == [c \in ValidCfgs |-> CHOOSE i \in 1..Len(CfgSeq) : CfgSeq[i] = c]
ASSUME PrintT(ToJson([cfgs |-> CfgSeq]))
ASSUME PrintT(ToJson([meta |-> [P |-> P, ShareDen |-> ShareDen]]))
CI(c) == IF c \in ValidCfgs THEN CfgIndex[c] ELSE IF c = NoCfg THEN 0 ELSE c

NZ(f) == [k \in { x \in DOMAIN f : ~IsZeroC(f[x]) } |-> f[k]]
ObsI == [ci |-> CI(cfg), bal |-> NZ(bal), rem |-> NZ(rem), blocks |-> blocks, phase |-> phase, nupd |-> nupd, exact |-> exact]
Edge == PrintT(ToJson([s |-> ObsI, a |-> act', t |-> ObsI']))
=============================================================================
