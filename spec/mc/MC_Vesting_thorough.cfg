SPECIFICATION Spec
CONSTANTS
  P = 100
  Addrs <- AllAddrs
  AddrSeq <- AllAddrSeq
  Setups <- MCSetups
  Denoms = {"uc4e"}
  VDenom = "uc4e"
  VTypes <- MCVTypes
  Tries <- MCTries
  TrySet = "all"
  Tmax = 6
  MaxMsgs = 3
  Blocked = {"mod"}
  Quirks = {}
INVARIANTS C05_Backed C05_Bounds NoNegBal C17_TraceOnlyForVesting C07_Liveness
PROPERTIES Rejected Conserved C06_Lock C06_WithdrawnOnlyAfter C06_WithdrawExact C18_WithdrawEvents C07_Exact C07_Drift C08_Send C08_Create C09_NoOverwrite C17_Lineage C13_Denom
VIEW ViewNoAct
CHECK_DEADLOCK FALSE
