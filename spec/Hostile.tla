------------------------------- MODULE Hostile -------------------------------
(* C20: no message or query of the custom modules panics, whatever its fields carry.

   Every message / query type is a sequence of typed fields; every field type has a
   set of abstract value classes (nil, empty, negative, zero, huge, malformed, valid
   and referencing an existing / a missing object ...).  TLC enumerates the full
   product per type, against a state that has and a state that lacks the
   referenced objects.  The specification of every such attempt is the same: the
   outcome is "ok" or "rejected" - the outcome "panic" exists in no action.  The
   harness concretises the classes, runs ValidateBasic, the handler and the gRPC
   query under recover(), and reports any panic (a panic in the handler after
   ValidateBasic passed is the headline case). *)
EXTENDS Integers, Sequences, FiniteSets, TLC

CONSTANTS Shapes,     \* record: type name -> sequence of field kinds
          Classes,    \* record: field kind -> set of value classes
          Invalid,    \* record: field kind -> classes that basic validation must refuse
          States      \* world states tried: "empty", "populated"

VARIABLES world, act
vars == <<world, act>>

RECURSIVE Product(_)
Product(kinds) == IF kinds = <<>> THEN { <<>> }
                  ELSE { <<c>> \o rest : c \in Classes[Head(kinds)], rest \in Product(Tail(kinds)) }

Init == world = "none" /\ act = [name |-> "init"]
Configure(w) == world = "none" /\ world' = w /\ act' = [name |-> "configure", world |-> w]
\* the only thing the specification says about an attempt: it terminates with ok or rejected;
\* if a field carries a class that basic validation must refuse, it is rejected
Try(t, vals) ==
  /\ world # "none"
  /\ LET mustReject == \E i \in DOMAIN vals : vals[i] \in Invalid[Shapes[t][i]]
     IN \E o \in (IF mustReject THEN {"rejected"} ELSE {"any"}) :
          act' = [name |-> "try", type |-> t, vals |-> vals, expect |-> o]
  /\ UNCHANGED world

Next == (\E w \in States : Configure(w)) \/ (\E t \in DOMAIN Shapes : \E vals \in Product(Shapes[t]) : Try(t, vals))
Spec == Init /\ [][Next]_vars

ViewWorld == world
NoPanicOutcome == act.name = "try" => act.expect \in {"rejected", "any"}
=============================================================================
