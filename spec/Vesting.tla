------------------------------- MODULE Vesting -------------------------------
(* x/cfevesting of c4e-chain together with the slice of x/auth (continuous
   vesting accounts), x/bank (balances, locked / spendable coins) and
   x/staking (delegation tracking) it depends on.

   One action per message:
     CreatePool, Withdraw, Send (send-to-vesting-account), CreateAcc
     (create-vesting-account), Split, Move, MoveByDenoms, UpdateDenom
   environment: Advance (block time passes), Delegate (the account owner
   delegates through x/staking), ExportImport.
   Queries (vesting pools with withdrawable amounts, vestings summary, genesis
   vestings summary, locked / spendable coins) are part of the observation.

   A message either succeeds or is rejected; a rejected message changes nothing
   (baseapp discards the cached writes), including the implicit withdrawal that
   send-to-vesting-account performs first.

   Time is an integer tick = one second.  Coins are functions Denoms -> Int; the
   vesting pools use only VDenom, which is also the staking denomination. *)
EXTENDS Integers, Sequences, FiniteSets, TLC, VestingMath

CONSTANTS Addrs,        \* all addresses
          Setups,       \* initial set-ups (genesis): records, see Configure
          Denoms, VDenom,
          VTypes,       \* vesting types: [name, lockup, vesting, free]  (free is a decimal scaled by P)
          Tries,        \* message attempts: records with field "m" (see Next); parameters may be symbolic
          Tmax, MaxMsgs,
          Blocked,      \* addresses that may not receive funds (module accounts)
          AddrSeq,      \* the addresses as a sequence (any order)
          Quirks

VARIABLES now, bal, modBal, pools, acct, traces, vdenom, msgs, act

vars == <<now, bal, modBal, pools, acct, traces, vdenom, msgs, act>>
\* (a trace specification may start a new execution with a reset step; it sets act to the initial value, which no action
\* of this specification does - the action properties below do not judge such a step: act'.name # "init")

-----------------------------------------------------------------------------
ZeroC == TLCEval([d \in Denoms |-> 0])
AddC(a, b) == TLCEval([d \in Denoms |-> a[d] + b[d]])
SubC(a, b) == TLCEval([d \in Denoms |-> a[d] - b[d]])
IsZeroC(a) == \A d \in Denoms : a[d] = 0
AllGE0(a) == \A d \in Denoms : a[d] >= 0
AllLE(a, b) == \A d \in Denoms : a[d] <= b[d]
Only(d0, n) == TLCEval([d \in Denoms |-> IF d = d0 THEN n ELSE 0])

NoAcct == [kind |-> "none", ov |-> ZeroC, start |-> 0, end |-> 0, dv |-> 0, df |-> 0]
BaseAcct == [NoAcct EXCEPT !.kind = "base"]
ModAcct == [NoAcct EXCEPT !.kind = "module"]
CV(ov, s, e) == [kind |-> "cv", ov |-> ov, start |-> s, end |-> e, dv |-> 0, df |-> 0]
\* an SDK delayed vesting account (everything locked until end): not a product of the custom messages, but it can be the
\* signer or the target of one - the custom messages must refuse to touch it
Delayed(ov, e) == [kind |-> "delayed", ov |-> ov, start |-> 0, end |-> e, dv |-> 0, df |-> 0]
\* an SDK permanent locked account: its original vesting never unlocks (it may only be delegated)
PermLocked(ov) == [kind |-> "permlocked", ov |-> ov, start |-> 0, end |-> 0, dv |-> 0, df |-> 0]
NoTrace == [has |-> FALSE, genesis |-> FALSE, fromPool |-> FALSE, fromAcc |-> FALSE]
Trace(g, p, a) == [has |-> TRUE, genesis |-> g, fromPool |-> p, fromAcc |-> a]

VTNames == { vt.name : vt \in VTypes }
VT(n) == CHOOSE vt \in VTypes : vt.name = n

(* ---- x/auth ContinuousVestingAccount (sdk 0.46.10) ---- *)
VestingC(a, t) == IF a.kind = "cv" THEN [d \in Denoms |-> Vesting1(a.ov[d], a.start, a.end, t)]
                  ELSE IF a.kind = "delayed" THEN (IF t >= a.end THEN ZeroC ELSE a.ov)
                  ELSE IF a.kind = "permlocked" THEN a.ov ELSE ZeroC
\* BaseVestingAccount.LockedCoinsFromVesting: vesting minus min(vesting, delegated vesting)
LockedC(a, t) == TLCEval([d \in Denoms |-> IF d = VDenom THEN Max(0, VestingC(a, t)[d] - a.dv) ELSE VestingC(a, t)[d]])
SpendableC(x, t) == SubC(bal[x], LockedC(acct[x], t))

(* ---- UnlockUnbondedContinuousVestingAccountCoins: new original vesting after unlocking u ----
   the code divides with Dec.Quo (round half even at the 18th digit); "SplitQuoRounds" is that
   behaviour, the reference truncates (see DESIGN.md, F9) *)
SplitOV(ov, s, e, t, u) == SplitOVq(ov, s, e, t, u, "SplitQuoRounds" \in Quirks)

(* ---- pools ---- *)
PoolLocked(p) == p.init - p.sent - p.withdrawn
Withdrawable(p, t) == IF t >= p.lockEnd THEN PoolLocked(p) ELSE 0
SumSeq(s, f(_)) == LET RECURSIVE T(_)
                       T(i) == IF i = 0 THEN 0 ELSE f(s[i]) + T(i - 1)
                   IN T(Len(s))
PoolIdx(ps, n) == { i \in DOMAIN ps : ps[i].name = n }
\* the code keeps the last pool with the name (names are unique anyway)
LastIdx(S) == CHOOSE i \in S : \A j \in S : j <= i

AfterWithdraw(ps, t) ==
  [ps |-> [i \in DOMAIN ps |-> [ps[i] EXCEPT !.withdrawn = @ + Withdrawable(ps[i], t)]],
   paid |-> SumSeq(ps, LAMBDA p : Withdrawable(p, t)),
   \* one event per pool that pays something, carrying that pool's amount
   events |-> LET RECURSIVE E(_)
                  E(i) == IF i > Len(ps) THEN <<>>
                          ELSE (IF Withdrawable(ps[i], t) > 0 THEN << [pool |-> ps[i].name, amount |-> Withdrawable(ps[i], t)] >> ELSE <<>>) \o E(i + 1)
              IN E(1)]

-----------------------------------------------------------------------------
(* Every message operator returns [ok |-> FALSE] or [ok |-> TRUE, bal, modBal, pools, acct, traces, out] *)
Rej == [ok |-> FALSE]
Acc(b, mb, ps, ac, tr, out) == [ok |-> TRUE, bal |-> b, modBal |-> mb, pools |-> ps, acct |-> ac, traces |-> tr, out |-> out]

Exists(x) == acct[x].kind # "none"
CanSend(x, c) == AllLE(c, SpendableC(x, now))       \* bank: spendable covers the amount

\* MsgCreateVestingPool(owner, name, amount, duration, vesting type)
DoCreatePool(o, n, amt, dur, vt) ==
  IF n = "" \/ amt < 0 \/ dur <= 0 \/ vt \notin VTNames THEN Rej
  ELSE IF bal[o][vdenom] < amt \/ PoolIdx(pools[o], n) # {} THEN Rej
  ELSE IF ~CanSend(o, Only(vdenom, amt)) THEN Rej
  ELSE LET p == [name |-> n, vt |-> vt, lockStart |-> now, lockEnd |-> now + dur, init |-> amt, sent |-> 0, withdrawn |-> 0, genesis |-> FALSE]
       IN Acc([bal EXCEPT ![o] = SubC(@, Only(vdenom, amt))], modBal + amt, [pools EXCEPT ![o] = Append(@, p)], acct, traces, [x |-> 0])

\* MsgWithdrawAllAvailable(owner)
DoWithdraw(o) ==
  IF pools[o] = <<>> THEN Rej
  ELSE LET w == AfterWithdraw(pools[o], now)
       IN Acc([bal EXCEPT ![o] = AddC(@, Only(vdenom, w.paid))], modBal - w.paid, [pools EXCEPT ![o] = w.ps], acct, traces,
              [paid |-> w.paid, events |-> w.events])

\* account created out of a pool: keeper.newVestingAccount

\* MsgSendToVestingAccount(owner, to, pool name, amount, restart vesting)
DoSend(o, to, n, amt, restart) ==
  IF n = "" \/ amt < 0 \/ o = to THEN Rej
  ELSE IF pools[o] = <<>> THEN Rej
  ELSE LET w == AfterWithdraw(pools[o], now)
           is == PoolIdx(w.ps, n)
       IN IF is = {} THEN Rej
          ELSE LET i == LastIdx(is)
                   p == w.ps[i]
               IN IF PoolLocked(p) < amt THEN Rej
                  ELSE IF to \in Blocked \/ Exists(to) THEN Rej
                  ELSE LET vt == VT(p.vt)
                           lockEnd == IF restart THEN now + vt.lockup ELSE p.lockEnd
                           vEnd == IF restart THEN now + vt.lockup + vt.vesting ELSE p.lockEnd
                           ov == NewOV(amt, vt.free)
                       IN Acc([bal EXCEPT ![o] = AddC(@, Only(vdenom, w.paid)), ![to] = AddC(@, Only(vdenom, amt))],
                              modBal - w.paid - amt,
                              [pools EXCEPT ![o] = [w.ps EXCEPT ![i].sent = @ + amt]],
                              [acct EXCEPT ![to] = CV(Only(vdenom, ov), Max(lockEnd, now), vEnd)],
                              [traces EXCEPT ![to] = Trace(FALSE, p.genesis, FALSE)],
                              [paid |-> w.paid, events |-> w.events, ov |-> ov])

\* MsgCreateVestingAccount(from, to, coins, start, end)
DoCreateAcc(from, to, c, ds, s, e) ==
  IF ~AllGE0(c) \/ s > e THEN Rej
  ELSE IF to \in Blocked \/ Exists(to) THEN Rej
  \* the bank rejects an amount that contains a zero coin (sdk.Coins.IsValid); ds = denominations listed in the message
  ELSE IF \E d \in ds : c[d] = 0 THEN Rej
  ELSE IF from = to THEN Rej
  ELSE IF ~Exists(from) \/ ~CanSend(from, c) THEN Rej
  ELSE Acc([bal EXCEPT ![from] = SubC(@, c), ![to] = AddC(@, c)], modBal, pools,
           [acct EXCEPT ![to] = CV(c, s, e)], traces, [x |-> 0])

\* keeper.splitVestingCoins, shared by split / move / move by denominations
DoSplitCoins(from, to, c) ==
  IF IsZeroC(c) THEN Rej
  ELSE IF to \in Blocked \/ Exists(to) THEN Rej
  ELSE IF acct[from].kind # "cv" THEN Rej
  ELSE IF ~AllLE(c, LockedC(acct[from], now)) THEN Rej
  ELSE LET a == acct[from]
           nov == TLCEval([d \in Denoms |-> SplitOV(a.ov[d], a.start, a.end, now, c[d])])
           a2 == [a EXCEPT !.ov = nov]
           \* bank.SendCoins must find the coins spendable after the unlock
           spend == SubC(bal[from], LockedC(a2, now))
       IN IF ~AllLE(c, spend) THEN Rej
          ELSE Acc([bal EXCEPT ![from] = SubC(@, c), ![to] = AddC(@, c)], modBal, pools,
                   [acct EXCEPT ![from] = a2, ![to] = CV(c, Max(now, a.start), a.end)],
                   IF traces[from].has THEN [traces EXCEPT ![to] = Trace(FALSE, traces[from].fromPool, traces[from].genesis \/ traces[from].fromAcc)] ELSE traces,
                   [x |-> 0])

\* MsgSplitVesting: coins must be a valid coin list (strictly positive amounts)
\* (sdk.Coins.Validate: every listed coin strictly positive; ds = denominations listed in the message)
DoSplit(from, to, c, ds) == IF ds = {} \/ \E d \in ds : c[d] <= 0 THEN Rej ELSE DoSplitCoins(from, to, c)
\* MsgMoveAvailableVesting: everything locked
DoMove(from, to) == DoSplitCoins(from, to, LockedC(acct[from], now))
\* MsgMoveAvailableVestingByDenoms
DoMoveDenoms(from, to, ds) ==
  IF ds = {} THEN Rej
  ELSE DoSplitCoins(from, to, TLCEval([d \in Denoms |-> IF d \in ds THEN LockedC(acct[from], now)[d] ELSE 0]))

-----------------------------------------------------------------------------
(* symbolic amounts are resolved against the current state *)
PoolRem(o, n) == LET w == AfterWithdraw(pools[o], now)
                     is == PoolIdx(w.ps, n)
                 IN IF pools[o] = <<>> \/ is = {} THEN 0 ELSE PoolLocked(w.ps[LastIdx(is)])
\* an amount is a pair <<selector, literal>>
Resolve(a, base) ==
  LET sel == a[1] IN
  CASE sel = "zero" -> 0
    [] sel = "one"  -> 1
    [] sel = "half" -> base \div 2
    [] sel = "all"  -> base
    [] sel = "allm1" -> base - 1
    [] sel = "over" -> base + 1
    [] sel = "neg" -> -1
    [] OTHER -> a[2]            \* "lit": a literal number

Apply(r, a) ==
  /\ msgs < MaxMsgs
  /\ msgs' = msgs + 1
  /\ IF r.ok
       THEN /\ bal' = r.bal /\ modBal' = r.modBal /\ pools' = r.pools /\ acct' = r.acct /\ traces' = r.traces
            /\ act' = a @@ [ok |-> TRUE, out |-> r.out]
       ELSE /\ UNCHANGED <<bal, modBal, pools, acct, traces>>
            /\ act' = a @@ [ok |-> FALSE]
  /\ UNCHANGED <<now, vdenom>>

Configured == act.name # "init"

TryMsg(x) ==
  /\ Configured
  /\ CASE x.m = "createpool" -> Apply(DoCreatePool(x.o, x.n, Resolve(x.amt, bal[x.o][vdenom]), x.dur, x.vt), [name |-> "createpool", x |-> x, amt |-> Resolve(x.amt, bal[x.o][vdenom])])
       [] x.m = "withdraw" -> Apply(DoWithdraw(x.o), [name |-> "withdraw", x |-> x])
       [] x.m = "send" -> Apply(DoSend(x.o, x.to, x.n, Resolve(x.amt, PoolRem(x.o, x.n)), x.restart), [name |-> "send", x |-> x, amt |-> Resolve(x.amt, PoolRem(x.o, x.n))])
       [] x.m = "createacc" -> LET c == TLCEval([d \in Denoms |-> IF d \in x.ds THEN Resolve(x.amt, SpendableC(x.from, now)[d]) ELSE 0])
                               IN Apply(DoCreateAcc(x.from, x.to, c, x.ds, now + x.ds0, now + x.de0), [name |-> "createacc", x |-> x, c |-> c, s |-> now + x.ds0, e |-> now + x.de0])
       [] x.m = "split" -> LET c == TLCEval([d \in Denoms |-> IF d \in x.ds THEN Resolve(x.amt, LockedC(acct[x.from], now)[d]) ELSE 0])
                           IN Apply(DoSplit(x.from, x.to, c, x.ds), [name |-> "split", x |-> x, c |-> c])
       [] x.m = "move" -> Apply(DoMove(x.from, x.to), [name |-> "move", x |-> x])
       [] x.m = "movedenoms" -> Apply(DoMoveDenoms(x.from, x.to, x.ds), [name |-> "movedenoms", x |-> x])
       [] OTHER -> FALSE

\* block time passes
Advance(d) ==
  /\ Configured /\ now + d <= Tmax
  /\ now' = now + d
  /\ act' = [name |-> "advance", d |-> d]
  /\ UNCHANGED <<bal, modBal, pools, acct, traces, vdenom, msgs>>

\* the owner of an account delegates amt of VDenom through x/staking (bank.DelegateCoins -> TrackDelegation)
Delegate(x, sel) ==
  /\ Configured /\ msgs < MaxMsgs /\ acct[x].kind \in {"base", "cv", "delayed", "permlocked"}
  /\ LET amt == Resolve(sel, bal[x][VDenom]) IN
       /\ amt > 0 /\ amt <= bal[x][VDenom]
       /\ LET v == VestingC(acct[x], now)[VDenom]
              dvx == Min(Max(v - acct[x].dv, 0), amt)
          IN /\ bal' = [bal EXCEPT ![x] = SubC(@, Only(VDenom, amt))]
             /\ acct' = IF acct[x].kind \in {"cv", "delayed", "permlocked"} THEN [acct EXCEPT ![x].dv = @ + dvx, ![x].df = @ + (amt - dvx)] ELSE acct
             /\ act' = [name |-> "delegate", a |-> x, amt |-> amt]
  /\ msgs' = msgs + 1
  /\ UNCHANGED <<now, modBal, pools, traces, vdenom>>

\* MsgUpdateDenomParam(authority, denom): governance only, and only while no pools exist
UpdateDenom(auth, d) ==
  /\ Configured /\ msgs < MaxMsgs
  /\ d \in Denoms \cup {""}          \* bounding device: only denominations the model tracks
  /\ LET ok == auth = "gov" /\ d # "" /\ \A o \in Addrs : pools[o] = <<>>
     IN /\ vdenom' = IF ok THEN d ELSE vdenom
        /\ act' = [name |-> "updatedenom", auth |-> auth, d |-> d, ok |-> ok]
  /\ msgs' = msgs + 1
  /\ UNCHANGED <<now, bal, modBal, pools, acct, traces>>

ExportImport ==
  /\ Configured /\ act.name \notin {"export", "configure"}
  /\ act' = [name |-> "export"]
  /\ UNCHANGED <<now, bal, modBal, pools, acct, traces, vdenom, msgs>>

(* genesis: balances, accounts (base, genesis continuous vesting accounts with traces), genesis pools *)
Init ==
  /\ now = 0 /\ bal = [a \in Addrs |-> ZeroC] /\ modBal = 0 /\ pools = [a \in Addrs |-> <<>>]
  /\ acct = [a \in Addrs |-> NoAcct] /\ traces = [a \in Addrs |-> NoTrace] /\ vdenom = VDenom /\ msgs = 0
  /\ act = [name |-> "init"]

Configure(s) ==
  /\ ~Configured
  /\ bal' = s.bal /\ acct' = s.acct /\ pools' = s.pools /\ traces' = s.traces
  /\ modBal' = LET RECURSIVE T(_)
                   T(S) == IF S = {} THEN 0 ELSE LET a == CHOOSE a \in S : TRUE IN SumSeq(s.pools[a], PoolLocked) + T(S \ {a})
               IN T(Addrs)
  /\ act' = [name |-> "configure", setup |-> s.id]
  /\ UNCHANGED <<now, vdenom, msgs>>

Next ==
  \/ \E s \in Setups : Configure(s)
  \/ \E x \in Tries : TryMsg(x)
  \/ \E d \in {1, 2} : Advance(d)
  \/ \E x \in { t \in Tries : t.m = "delegate" } : Delegate(x.a, x.amt)
  \/ \E x \in { t \in Tries : t.m = "updatedenom" } : UpdateDenom(x.auth, x.d)
  \/ ExportImport

Spec == Init /\ [][Next]_vars
ViewNoAct == <<now, bal, modBal, pools, acct, traces, vdenom, msgs>>

-----------------------------------------------------------------------------
(* ---- queries (part of the observation) ---- *)
AllPools == UNION { { <<o, i>> : i \in DOMAIN pools[o] } : o \in Addrs }
PoolAt(x) == pools[x[1]][x[2]]
SumSet(S0, f(_)) == LET RECURSIVE T(_)
                        T(S) == IF S = {} THEN 0 ELSE LET x == CHOOSE x \in S : TRUE IN f(x) + T(S \ {x})
                    IN T(S0)
IsGenDerived(tr) == tr.has /\ (tr.genesis \/ tr.fromPool \/ tr.fromAcc)
\* sums over addresses go through a fixed enumeration (cheap for TLC)
SumAddr(f(_)) == LET RECURSIVE T(_)
                     T(i) == IF i = 0 THEN 0 ELSE f(AddrSeq[i]) + T(i - 1)
                 IN T(Len(AddrSeq))
GenesisPoolSum(o) == SumSeq(pools[o], LAMBDA p : IF p.genesis THEN PoolLocked(p) ELSE 0)
Summary(genesisOnly) ==
  LET inPools == IF genesisOnly THEN SumAddr(GenesisPoolSum) ELSE modBal
      In(a) == traces[a].has /\ acct[a].kind = "cv" /\ (~genesisOnly \/ IsGenDerived(traces[a]))
      vest == SumAddr(LAMBDA a : IF In(a) THEN VestingC(acct[a], now)[vdenom] ELSE 0)
      lock == SumAddr(LAMBDA a : IF In(a) THEN LockedC(acct[a], now)[vdenom] ELSE 0)
  IN [all |-> vest + inPools, pools |-> inPools, accounts |-> vest, delegated |-> vest - lock]

Obs == [now |-> now, bal |-> bal, modBal |-> modBal, pools |-> pools, acct |-> acct, traces |-> traces, vdenom |-> vdenom,
        locked |-> [a \in Addrs |-> LockedC(acct[a], now)],
        summary |-> Summary(FALSE), gsummary |-> Summary(TRUE)]

-----------------------------------------------------------------------------
(* ---- properties ---- *)
\* C05: the module account is exactly backed by the pools, pool counters are consistent
C05_Backed == modBal = SumSet(AllPools, LAMBDA x : PoolLocked(PoolAt(x)))
C05_Bounds == \A x \in AllPools : PoolAt(x).withdrawn >= 0 /\ PoolAt(x).sent >= 0 /\ PoolAt(x).withdrawn + PoolAt(x).sent <= PoolAt(x).init
\* C05 / C01: a rejected message changes nothing; nothing is created or destroyed
IsMsg(n) == n \in {"createpool", "withdraw", "send", "createacc", "split", "move", "movedenoms"}
Rejected == [][(act'.name # "init") => ((IsMsg(act'.name) /\ ~act'.ok) => UNCHANGED <<now, bal, modBal, pools, acct, traces>>)]_vars
TotalCoins == [d \in Denoms |-> SumSet(Addrs, LAMBDA a : bal[a][d]) + (IF d = vdenom THEN modBal ELSE 0)]
Conserved == [][(act'.name # "init") => ((IsMsg(act'.name)) => TotalCoins' = TotalCoins)]_vars
NoNegBal == \A a \in Addrs : AllGE0(bal[a]) /\ AllGE0(SpendableC(a, now))
\* C06: before lock end a pool's remainder only shrinks through send; withdrawn only changes at / after lock end
C06_Lock == [][(act'.name # "init") => (\A o \in Addrs : \A i \in DOMAIN pools[o] :
                 (now < pools[o][i].lockEnd /\ i \in DOMAIN pools'[o] /\ act'.name # "send") => PoolLocked(pools'[o][i]) = PoolLocked(pools[o][i]))]_vars
C06_WithdrawnOnlyAfter == [][(act'.name # "init") => (\A o \in Addrs : \A i \in DOMAIN pools[o] :
                 (i \in DOMAIN pools'[o] /\ pools'[o][i].withdrawn # pools[o][i].withdrawn) => now >= pools[o][i].lockEnd)]_vars
\* C06: an accepted withdraw pays exactly the matured remainders, and nothing is withdrawable right after
C06_WithdrawExact == [][(act'.name # "init") => ((act'.name = "withdraw" /\ act'.ok) =>
                          /\ act'.out.paid = SumSeq(pools[act'.x.o], LAMBDA p : Withdrawable(p, now))
                          /\ \A i \in DOMAIN pools'[act'.x.o] : Withdrawable(pools'[act'.x.o][i], now) = 0
                          /\ bal'[act'.x.o][vdenom] = bal[act'.x.o][vdenom] + act'.out.paid)]_vars
\* C18: withdrawal events report per pool what was withdrawn from it and sum to what was paid
C18_WithdrawEvents == [][(act'.name # "init") => ((act'.name \in {"withdraw", "send"} /\ act'.ok) =>
                           /\ SumSeq(act'.out.events, LAMBDA e : e.amount) = act'.out.paid
                           /\ \A k \in DOMAIN act'.out.events : act'.out.events[k].amount > 0)]_vars
\* C07: an accepted split / move is exact, keeps the spendable balance, and the recipient gets the documented schedule
IsSplit(n) == n \in {"split", "move", "movedenoms"}
SplitAmt == IF act'.name = "split" THEN act'.c
            ELSE IF act'.name = "move" THEN LockedC(acct[act'.x.from], now)
            ELSE [d \in Denoms |-> IF d \in act'.x.ds THEN LockedC(acct[act'.x.from], now)[d] ELSE 0]
C07_Exact == [][(act'.name # "init") => ((IsSplit(act'.name) /\ act'.ok) =>
                  LET f == act'.x.from  t == act'.x.to  u == SplitAmt IN
                  /\ LockedC(acct'[f], now) = SubC(LockedC(acct[f], now), u)
                  /\ SubC(bal'[f], LockedC(acct'[f], now)) = SubC(bal[f], LockedC(acct[f], now))
                  /\ LockedC(acct'[t], now) = u /\ acct'[t].end = acct[f].end /\ acct'[t].start = Max(now, acct[f].start)
                  /\ bal'[t] = u)]_vars
C07_Drift == [][(act'.name # "init") => ((IsSplit(act'.name) /\ act'.ok) =>
                  \A t \in now..(Tmax + 2) : \A d \in Denoms :
                     LET x == VestingC(acct'[act'.x.from], t)[d] + VestingC(acct'[act'.x.to], t)[d] - VestingC(acct[act'.x.from], t)[d]
                     IN x >= -3 /\ x <= 3)]_vars
\* C07: any amount up to the locked, undelegated coins can be split (to a fresh, unblocked address)
C07_Liveness == \A x \in Tries : (Configured /\ x.m = "split" /\ x.amt[1] \in {"one", "half", "all"} /\ msgs < MaxMsgs
                                  /\ acct[x.from].kind = "cv" /\ ~Exists(x.to) /\ x.to \notin Blocked) =>
                   LET c == [d \in Denoms |-> IF d \in x.ds THEN Resolve(x.amt, LockedC(acct[x.from], now)[d]) ELSE 0]
                   IN ((\A d \in x.ds : c[d] > 0) /\ AllLE(c, LockedC(acct[x.from], now))) => DoSplit(x.from, x.to, c, x.ds).ok
\* C08: accounts created out of a pool
C08_Send == [][(act'.name # "init") => ((act'.name = "send" /\ act'.ok) =>
                 LET o == act'.x.o  t == act'.x.to  amt == act'.amt
                     i == LastIdx(PoolIdx(pools[o], act'.x.n))
                     p == pools[o][i]  vt == VT(p.vt) IN
                 /\ bal'[t][vdenom] = amt /\ acct[t].kind = "none" /\ acct'[t].kind = "cv"
                 /\ acct'[t].ov[vdenom] = NewOV(amt, vt.free)
                 /\ pools'[o][i].sent = p.sent + amt
                 /\ amt <= PoolLocked(AfterWithdraw(pools[o], now).ps[i])
                 /\ IF act'.x.restart THEN acct'[t].start = now + vt.lockup /\ acct'[t].end = now + vt.lockup + vt.vesting
                    ELSE acct'[t].end = p.lockEnd /\ acct'[t].start = Max(p.lockEnd, now))]_vars
C08_Create == [][(act'.name # "init") => ((act'.name = "createacc" /\ act'.ok) =>
                 /\ bal'[act'.x.to] = act'.c /\ acct'[act'.x.to] = CV(act'.c, act'.s, act'.e)
                 /\ bal'[act'.x.from] = SubC(bal[act'.x.from], act'.c))]_vars
\* C09: existing accounts are never replaced or altered, except the signer's own original vesting on split / move
C09_NoOverwrite == [][(act'.name # "init") => (\A a \in Addrs : (acct[a].kind # "none" /\ act'.name # "delegate") =>
                        \/ acct'[a] = acct[a]
                        \/ (IsSplit(act'.name) /\ act'.ok /\ a = act'.x.from /\ acct'[a] = [acct[a] EXCEPT !.ov = acct'[a].ov] /\ AllLE(acct'[a].ov, acct[a].ov)))]_vars
\* C17: lineage: an account is recorded as genesis-derived iff it was created out of a genesis pool or split from a genesis-derived account
C17_TraceOnlyForVesting == \A a \in Addrs : traces[a].has => acct[a].kind = "cv"
C17_LineageStep ==
  /\ (act'.name = "send" /\ act'.ok) =>
        traces'[act'.x.to] = Trace(FALSE, pools[act'.x.o][LastIdx(PoolIdx(pools[act'.x.o], act'.x.n))].genesis, FALSE)
  /\ (IsSplit(act'.name) /\ act'.ok) =>
        (IsGenDerived(traces'[act'.x.to]) <=> IsGenDerived(traces[act'.x.from]))
  /\ \A a \in Addrs : (traces[a].has /\ act'.name # "export") => traces'[a] = traces[a]
C17_Lineage == [][(act'.name # "init") => C17_LineageStep]_vars
\* C12 (documented deviation, known finding F8): x/auth's genesis validation wants start < end for every continuous vesting
\* account; the documented schedule of a non-restart send (start = end = lock end) and a zero vesting period violate it.
\* Not checked on the reference model (it is false there by design); the harness evaluates it on the real accounts at export.
C12_AuthGenesisValid == \A a \in Addrs : acct[a].kind = "cv" => acct[a].start < acct[a].end
\* C13: the denomination cannot change while pools exist; only governance changes it
C13_Denom == [][(act'.name # "init") => ((vdenom' # vdenom) => (act'.name = "updatedenom" /\ act'.auth = "gov" /\ \A o \in Addrs : pools[o] = <<>>))]_vars
=============================================================================
