-------------------------------- MODULE Chain --------------------------------
(* Composition at block level: what one node does with a block.

     BeginBlock(t) = cfeminter.BeginBlocker (mint the schedule's amount for block time t to the
                     distributor's main account) ; cfedistributor.BeginBlocker (distribute / burn)
     Fee(v)        = coins move from a payer account to source accounts (transaction fees): supply neutral
     Opaque(i)     = the i-th message of a fixed script of cfevesting / cfesignature messages; at this level
                     the only thing the model says about them is that they do not change the supply and do
                     not touch the minter / distributor accounts (their own semantics is Vesting.tla / Signature.tla)
     UpdateMinter / UpdateDistributor = governance parameter updates between blocks
     FailedTx      = a valid parameter update followed, in the same transaction / proposal, by a message that fails
     ExportImport  = the node is stopped, its state exported, a fresh node initialised from it

   The minter and the distributor are the modules Minter.tla and Distributor.tla, instantiated on this
   module's variables; only their operators are used here. *)
EXTENDS Integers, Sequences, FiniteSets, TLC

CONSTANTS P,
          MinterCfgs, DistCfgs,       \* initial configurations of the two modules
          MinterUpdates, DistUpdates, \* governance payloads (whole configurations)
          FeeVecs,                    \* fee inflows: key -> coins
          Script,                     \* sequence of opaque messages (records understood by the harness)
          Tmax, MaxBlocks, MaxUpdates, Supply0,
          Denoms, Accs, ModuleIds, BaseIds, YearTicks

VARIABLES mcfg, ms, hist, now, total, sup, mexact,      \* minter
          dcfg, bal, rem, entitled, paid, requeued, dexact,   \* distributor
          supply,      \* total supply per denomination
          minted, burned, \* ghosts: cumulative per denomination
          blocks, nupd, pcScript, halted, act,
          stage        \* bounding device: between two blocks at most one fee, one opaque message, one update, one export, in this order

vars == <<mcfg, ms, hist, now, total, sup, mexact, dcfg, bal, rem, entitled, paid, requeued, dexact, supply, minted, burned, blocks, nupd, pcScript, halted, act, stage>>

\* the instantiated modules: variables that this composition does not use are bound to dummies
M == INSTANCE Minter WITH cfg <- mcfg, halted <- halted, nupd <- nupd, exact <- mexact,
                          Configs <- MinterCfgs, UpdateTries <- {}, RejectProbeTimes <- {}, MaxUpdates <- MaxUpdates, Quirks <- {}
D == INSTANCE Distributor WITH cfg <- dcfg, phase <- "dep", nupd <- nupd, deposited <- supply, halted <- halted, exact <- dexact,
                          Configs <- DistCfgs, DepositVecs <- {}, FaultSets <- {{}}, UpdateTries <- {}, RejectProbeBlocks <- {}, Quirks <- {}

ZeroC == TLCEval([d \in Denoms |-> 0])

Init ==
  /\ mcfg = M!NoCfg /\ ms = M!MS0 /\ hist = <<>> /\ now = 0 /\ total = 0 /\ sup = [d \in M!ValidDenoms |-> Supply0] /\ mexact = TRUE
  /\ dcfg = D!NoCfg /\ bal = [k \in D!BankKeys |-> ZeroC] /\ rem = [k \in D!Universe |-> ZeroC]
  /\ entitled = [k \in D!Universe |-> ZeroC] /\ paid = [k \in D!Universe |-> ZeroC] /\ requeued = [k \in D!Universe |-> ZeroC] /\ dexact = TRUE
  /\ supply = TLCEval([d \in Denoms |-> Supply0]) /\ minted = ZeroC /\ burned = ZeroC
  /\ blocks = 0 /\ nupd = 0 /\ pcScript = 1 /\ halted = FALSE
  /\ act = [name |-> "init"] /\ stage = 0

Configured == act.name # "init"

Configure(mc, dc) ==
  /\ ~Configured /\ M!ValidCfg(mc) /\ M!HasMinter(mc, 1) /\ D!ValidConfig(dc) /\ mc.denom \in Denoms
  /\ mcfg' = mc /\ dcfg' = dc
  /\ act' = [name |-> "configure"] /\ stage' = 0
  /\ UNCHANGED <<ms, hist, now, total, sup, mexact, bal, rem, entitled, paid, requeued, dexact, supply, minted, burned, blocks, nupd, pcScript, halted>>

BeginBlock(t) ==
  /\ Configured /\ ~halted /\ t > now /\ t <= Tmax /\ t <= now + 2 /\ blocks < MaxBlocks /\ stage' = 0
  /\ LET r == M!MintAt(mcfg, ms, hist, t)
         md == mcfg.denom
         bal1 == [bal EXCEPT ![D!MAINK] = [@ EXCEPT ![md] = @ + r.amount]]
         d == D!RunBlockFrom(bal1, rem, entitled, paid, requeued, dcfg, {})
         burnedNow == [x \in Denoms |-> d.paid[D!BURNK][x] - paid[D!BURNK][x]]
     IN /\ now' = t /\ ms' = r.ms /\ hist' = r.hist /\ halted' = r.err
        /\ total' = total + r.amount /\ sup' = [sup EXCEPT ![md] = @ + r.amount] /\ mexact' = (mexact /\ r.exact)
        /\ bal' = TLCEval(d.bal) /\ rem' = TLCEval(d.rem) /\ entitled' = TLCEval(d.entitled) /\ paid' = TLCEval(d.paid) /\ requeued' = TLCEval(d.requeued) /\ dexact' = (dexact /\ d.exact)
        /\ minted' = [minted EXCEPT ![md] = @ + r.amount]
        /\ burned' = TLCEval([x \in Denoms |-> burned[x] + burnedNow[x]])
        /\ supply' = TLCEval([x \in Denoms |-> supply[x] + (IF x = md THEN r.amount ELSE 0) - burnedNow[x]])
        /\ act' = [name |-> "block", t |-> t, minted |-> r.amount, burned |-> burnedNow, events |-> d.events]
  /\ blocks' = blocks + 1
  /\ UNCHANGED <<mcfg, dcfg, nupd, pcScript>>

Fee(v) ==
  /\ Configured /\ ~halted /\ stage < 1 /\ stage' = 1
  /\ DOMAIN v \subseteq (D!KeysOf(dcfg) \cup {D!MAINK}) \cap D!BankKeys
  /\ bal' = TLCEval([k \in DOMAIN bal |-> IF k \in DOMAIN v THEN [d \in Denoms |-> bal[k][d] + v[k][d]] ELSE bal[k]])
  /\ act' = [name |-> "fee", v |-> v]
  /\ UNCHANGED <<mcfg, ms, hist, now, total, sup, mexact, dcfg, rem, entitled, paid, requeued, dexact, supply, minted, burned, blocks, nupd, pcScript, halted>>

Opaque ==
  /\ Configured /\ ~halted /\ pcScript <= Len(Script) /\ stage < 2 /\ stage' = 2
  /\ pcScript' = pcScript + 1
  /\ act' = [name |-> "opaque", i |-> pcScript, msg |-> Script[pcScript]]
  /\ UNCHANGED <<mcfg, ms, hist, now, total, sup, mexact, dcfg, bal, rem, entitled, paid, requeued, dexact, supply, minted, burned, blocks, nupd, halted>>

UpdateMinter(u) ==
  /\ Configured /\ ~halted /\ nupd < MaxUpdates /\ stage < 3 /\ stage' = 3
  /\ LET ok == M!ValidCfg(u) /\ M!HasMinter(u, ms.seq) /\ u.denom \in Denoms IN
       /\ mcfg' = IF ok THEN u ELSE mcfg
       /\ act' = [name |-> "updateminter", payload |-> u, ok |-> ok]
  /\ nupd' = nupd + 1
  /\ UNCHANGED <<ms, hist, now, total, sup, mexact, dcfg, bal, rem, entitled, paid, requeued, dexact, supply, minted, burned, blocks, pcScript, halted>>

UpdateDistributor(u) ==
  /\ Configured /\ ~halted /\ nupd < MaxUpdates /\ stage < 3 /\ stage' = 3
  /\ LET ok == D!ValidConfig(u) /\ u # <<>> IN
       /\ dcfg' = IF ok THEN u ELSE dcfg
       /\ act' = [name |-> "updatedist", payload |-> u, ok |-> ok]
  /\ nupd' = nupd + 1
  /\ UNCHANGED <<mcfg, ms, hist, now, total, sup, mexact, bal, rem, entitled, paid, requeued, dexact, supply, minted, burned, blocks, pcScript, halted>>

(* A transaction (or the message list of a passed governance proposal) whose first message is a parameter update that
   is valid on its own and whose second message fails: baseapp / x/gov run all messages on one branch of the state and
   drop it - nothing may remain of the update, neither in the store nor in the node's memory. *)
FailedTx(k, u) ==
  /\ Configured /\ ~halted /\ nupd < MaxUpdates /\ stage < 3 /\ stage' = 3
  /\ k \in {"minter", "dist"}
  /\ (k = "minter") => (M!ValidCfg(u) /\ M!HasMinter(u, ms.seq) /\ u.denom \in Denoms)
  /\ (k = "dist") => (D!ValidConfig(u) /\ u # <<>>)
  /\ act' = [name |-> "failedtx", kind |-> k, payload |-> u]
  /\ nupd' = nupd + 1
  /\ UNCHANGED <<mcfg, ms, hist, now, total, sup, mexact, dcfg, bal, rem, entitled, paid, requeued, dexact, supply, minted, burned, blocks, pcScript, halted>>

ExportImport ==
  /\ Configured /\ ~halted /\ stage < 4 /\ stage' = 4 /\ blocks > 0
  /\ act' = [name |-> "export"]
  /\ UNCHANGED <<mcfg, ms, hist, now, total, sup, mexact, dcfg, bal, rem, entitled, paid, requeued, dexact, supply, minted, burned, blocks, nupd, pcScript, halted>>

Next ==
  \/ \E mc \in MinterCfgs, dc \in DistCfgs : Configure(mc, dc)
  \/ \E t \in 1..Tmax : BeginBlock(t)
  \/ \E v \in FeeVecs : Fee(v)
  \/ Opaque
  \/ \E u \in MinterUpdates : UpdateMinter(u)
  \/ \E u \in DistUpdates : UpdateDistributor(u)
  \/ \E u \in MinterUpdates : FailedTx("minter", u)
  \/ \E u \in DistUpdates : FailedTx("dist", u)
  \/ ExportImport

Spec == Init /\ [][Next]_vars
ViewNoAct == <<mcfg, ms, hist, now, total, sup, mexact, dcfg, bal, rem, entitled, paid, requeued, dexact, supply, minted, burned, blocks, nupd, pcScript, halted, stage>>

(* ---- properties ---- *)
\* C01: the supply changes only by what the schedule mints minus what the configuration burns
SupplyLedger == \A d \in Denoms : supply[d] = Supply0 + minted[d] - burned[d]
\* (a trace specification starts a new execution with a reset step that sets act to the initial value: not judged)
SupplyOnlyInBlocks == [][act'.name \notin {"block", "init"} => supply' = supply]_vars
SupplyDeltaIsMintMinusBurn == [][act'.name = "block" =>
      \A d \in Denoms : supply'[d] - supply[d] = (IF d = mcfg.denom THEN act'.minted ELSE 0) - act'.burned[d]]_vars
\* C03 at chain level: books match after every block
BooksMatch == (Configured /\ act.name \in {"block", "export", "opaque", "updateminter", "updatedist", "failedtx"}) =>
                 \A d \in Denoms : D!SumRem(rem)[d] <= D!DecC(bal[D!MAINK])[d]
\* C10: neither module halts the chain; the minter's current period always exists
NeverHalts == ~halted
CurrentPeriodExists == Configured => M!HasMinter(mcfg, ms.seq)
=============================================================================
