----------------------------- MODULE Distributor -----------------------------
(* x/cfedistributor of c4e-chain: the fee / emission distribution state machine.

   Actions (one per public entry point):
     Configure(c)          genesis with sub-distributor list c
     Deposit(v)            coins arrive on source accounts / the main account between blocks
     Block(F)              cfedistributor.BeginBlocker; F = set of bank calls that fail in this block
                           ("sweep:<key>" source sweep, "pay:<key>" destination payout, "pay:BURN" burn)
     UpdateParams / UpdateSub / UpdateShare / UpdateBurn   the four governance messages
     ExportImport          ExportGenesis ; InitGenesis

   The flow is the documented one (x/cfedistributor/README.md): per
   sub-distributor, in list order, the inflow is what its sources hold (the
   main account contributes what is on it and not yet accounted for in any
   leftover; module / base accounts are swept completely; every source also
   re-queues its own leftover), every share receives inflow*share truncated at
   18 digits, the burn share likewise, the primary destination the rest; at the
   end of the block every non-internal destination is paid the integer part of
   its leftover.  A share whose destination is the main account stays on the
   main account un-accounted and is picked up by the next sub-distributor that
   has the main account as a source.  Destinations are identified by (type, id).

   Accounts are records [t, id] with t in {"MAIN","MOD","BASE","INT"}; the key
   of an account is the string t-id ("MAIN" for the main account).  Coins are
   functions Denoms -> Int; decimals are scaled by P (DecArith). *)
EXTENDS Integers, Sequences, FiniteSets, TLC, DecArith

CONSTANTS Configs,        \* initial configurations: sequences of sub-distributors
          Denoms,         \* coin denominations
          DepositVecs,    \* deposits tried between blocks: functions key -> amount (per denomination variant below)
          FaultSets,      \* fault patterns tried per block (sets of target strings); {{}} = fault-free
          MaxBlocks,
          UpdateTries,    \* update attempts, records [kind, auth, ...]
          MaxUpdates,
          RejectProbeBlocks, \* bounding device: rejected updates are explored only when blocks is in this set
          Accs,           \* universe of account records [t, id] that configurations and updates may mention
          ModuleIds,      \* module account ids known to the application (maccPerms)
          BaseIds,        \* ids that are well-formed addresses
          Quirks

VARIABLES cfg,       \* stored Params.SubDistributors
          bal,       \* bank balances: key -> coins, for the main account, module and base accounts
          rem,       \* leftovers ("States"): key -> decimal coins; zero = no state
          blocks,    \* number of blocks so far
          phase,     \* "dep" (deposit next) or "blk" (block next)
          nupd,
          \* ghosts
          entitled,  \* key -> decimal coins assigned to the destination by the documented formula
          paid,      \* key -> coins actually delivered (burned for BURN)
          requeued,  \* key -> decimal coins a destination passed on as a source
          deposited, \* coins that entered the system
          halted,
          exact,
          act

vars == <<cfg, bal, rem, blocks, phase, nupd, entitled, paid, requeued, deposited, halted, exact, act>>

-----------------------------------------------------------------------------
MAINK == "MAIN"
BURNK == "BURN"
Key(a) == IF a.t = "MAIN" THEN MAINK ELSE a.t \o "-" \o a.id
IsBank(a) == a.t \in {"MOD", "BASE"}

ZeroC == TLCEval([d \in Denoms |-> 0])
AddC(a, b) == TLCEval([d \in Denoms |-> a[d] + b[d]])
SubC(a, b) == TLCEval([d \in Denoms |-> a[d] - b[d]])
IsZeroC(a) == \A d \in Denoms : a[d] = 0
DecC(a) == TLCEval([d \in Denoms |-> DecFromInt(a[d])])
TruncC(a) == TLCEval([d \in Denoms |-> TruncInt(a[d])])
FracC(a) == TLCEval([d \in Denoms |-> Frac(a[d])])
MulTruncC(a, sh) == TLCEval([d \in Denoms |-> DecMulTrunc(a[d], sh)])
MulExactC(a, sh) == \A d \in Denoms : MulExact(a[d], sh)
AnyGE1(a) == \E d \in Denoms : a[d] >= P

FoldSeq(f(_, _), acc0, s0) ==
  LET RECURSIVE F(_, _)
      F(acc, s) == IF s = <<>> THEN acc ELSE F(f(acc, Head(s)), Tail(s))
  IN F(acc0, s0)
SumSet(S0, f(_)) ==
  LET RECURSIVE T(_)
      T(S) == IF S = {} THEN ZeroC ELSE LET x == CHOOSE x \in S : TRUE IN AddC(f(x), T(S \ {x}))
  IN T(S0)

\* ---- accounts and keys of a configuration ----
AccsOfSD(sd) == [j \in 1..(Len(sd.sources) + 1 + Len(sd.shares)) |->
                   IF j <= Len(sd.sources) THEN [acc |-> sd.sources[j], role |-> "S"]
                   ELSE IF j = Len(sd.sources) + 1 THEN [acc |-> sd.primary, role |-> "D"]
                   ELSE [acc |-> sd.shares[j - Len(sd.sources) - 1].dest, role |-> "D"]]
RECURSIVE Flat(_, _)
Flat(c, i) == IF i > Len(c) THEN <<>> ELSE AccsOfSD(c[i]) \o Flat(c, i + 1)
KeysOf(c) == { Key(Flat(c, 1)[i].acc) : i \in DOMAIN Flat(c, 1) }

-----------------------------------------------------------------------------
(* types.Params.Validate: SubDistributor.Validate for each + ValidateSubDistributors *)
ValidAcc(a) ==
  CASE a.t = "MAIN" -> TRUE
    [] a.t = "INT"  -> a.id # ""
    [] a.t = "BASE" -> a.id \in BaseIds
    [] a.t = "MOD"  -> a.id \in ModuleIds
    [] OTHER -> FALSE
ValidShareVal(x) == x >= 0 /\ x < P
RECURSIVE ShareSum(_, _)
ShareSum(sd, i) == IF i = 0 THEN sd.burn ELSE sd.shares[i].share + ShareSum(sd, i - 1)
ValidSD(sd) ==
  /\ sd.name # ""
  /\ ValidShareVal(sd.burn)
  /\ \A i \in DOMAIN sd.shares :
        /\ sd.shares[i].name # "" /\ sd.shares[i].name # sd.name \o "_primary"
        /\ ValidShareVal(sd.shares[i].share) /\ ValidAcc(sd.shares[i].dest)
  /\ ValidAcc(sd.primary)
  /\ ValidShareVal(ShareSum(sd, Len(sd.shares)))
  /\ Len(sd.sources) >= 1
  /\ \A i \in DOMAIN sd.sources : ValidAcc(sd.sources[i])
NoDupWithin(sd) == LET as == AccsOfSD(sd) IN \A i, j \in DOMAIN as : i # j => Key(as[i].acc) # Key(as[j].acc)
ShareNames(c) == LET RECURSIVE N(_)
                     N(i) == IF i > Len(c) THEN <<>>
                             ELSE <<c[i].name \o "_primary">> \o [j \in DOMAIN c[i].shares |-> c[i].shares[j].name] \o N(i + 1)
                 IN N(1)
Distinct(s) == \A i, j \in DOMAIN s : i # j => s[i] # s[j]
LastRoleOK(c) == LET f == Flat(c, 1)
                     tracked == { i \in DOMAIN f : f[i].acc.t \in {"INT", "MAIN"} }
                 IN /\ \E i \in tracked : f[i].acc.t = "MAIN"
                    /\ \A i \in tracked : (\A j \in tracked : j > i => Key(f[j].acc) # Key(f[i].acc)) => f[i].role = "S"
ValidConfig(c) ==
  /\ \A i \in DOMAIN c : ValidSD(c[i])
  /\ Distinct([i \in DOMAIN c |-> c[i].name])
  /\ \A i \in DOMAIN c : NoDupWithin(c[i])
  /\ Distinct(ShareNames(c))
  /\ LastRoleOK(c)

-----------------------------------------------------------------------------
(* ---- one block ---- *)
SumRem(r) == SumSet(DOMAIN r, LAMBDA k : r[k])

\* the main account as a source: everything on it that no leftover accounts for
MainInflow(st) == IF IsZeroC(st.bal[MAINK]) THEN ZeroC ELSE SubC(DecC(st.bal[MAINK]), SumRem(st.rem))

\* one non-main source: sweep (module / base accounts) and re-queue its own leftover
SweepOne(F, st, s) ==
  IF s.t = "MAIN" THEN st
  ELSE LET k == Key(s)
           amt == IF IsBank(s) THEN st.bal[k] ELSE ZeroC
           fail == ~IsZeroC(amt) /\ ("sweep:" \o k) \in F
           moved == IF fail THEN ZeroC ELSE amt
           own == st.rem[k]
       IN [st EXCEPT !.bal = IF IsBank(s) THEN [st.bal EXCEPT ![k] = SubC(@, moved), ![MAINK] = AddC(@, moved)] ELSE st.bal,
                     !.rem = [st.rem EXCEPT ![k] = ZeroC],
                     !.inflow = AddC(AddC(@, DecC(moved)), own),
                     !.requeued = [st.requeued EXCEPT ![k] = AddC(@, own)]]

HasMainSource(sd) == \E i \in DOMAIN sd.sources : sd.sources[i].t = "MAIN"

\* shares, burn share, primary share of one sub-distributor with inflow st.inflow
ShareOne(inflow, st, sh) ==
  LET cs == MulTruncC(inflow, sh.share)
      k == Key(sh.dest)
  IN IF sh.dest.t = "MAIN"
       THEN IF "MainShareToPrimary" \in Quirks THEN st
            ELSE [st EXCEPT !.default = SubC(@, cs), !.entitled = [st.entitled EXCEPT ![MAINK] = AddC(@, cs)],
                            !.exact = @ /\ MulExactC(inflow, sh.share)]
       ELSE [st EXCEPT !.rem = [st.rem EXCEPT ![k] = AddC(@, cs)], !.default = SubC(st.default, cs),
                       !.entitled = [st.entitled EXCEPT ![k] = AddC(@, cs)],
                       !.events = IF IsZeroC(cs) THEN @ ELSE Append(@, [sd |-> st.sdname, share |-> sh.name, dest |-> k, amount |-> cs]),
                       !.exact = @ /\ MulExactC(inflow, sh.share)]

RunSD(F, st0, sd) ==
  LET stm == IF HasMainSource(sd) THEN [st0 EXCEPT !.inflow = MainInflow(st0)] ELSE [st0 EXCEPT !.inflow = ZeroC]
      a == FoldSeq(LAMBDA x, y : SweepOne(F, x, y), stm, sd.sources)
  IN IF IsZeroC(a.inflow) THEN a
     ELSE LET b == FoldSeq(LAMBDA x, y : ShareOne(a.inflow, x, y), [a EXCEPT !.default = a.inflow, !.sdname = sd.name], sd.shares)
              cb == MulTruncC(a.inflow, sd.burn)
              c == [b EXCEPT !.rem = [b.rem EXCEPT ![BURNK] = AddC(@, cb)], !.default = SubC(@, cb),
                             !.entitled = [b.entitled EXCEPT ![BURNK] = AddC(@, cb)],
                             !.events = IF IsZeroC(cb) THEN @ ELSE Append(@, [sd |-> sd.name, share |-> "BURN", dest |-> BURNK, amount |-> cb]),
                             !.exact = @ /\ MulExactC(a.inflow, sd.burn)]
              pk == Key(sd.primary)
          IN [c EXCEPT !.rem = IF sd.primary.t = "MAIN" THEN @ ELSE [@ EXCEPT ![pk] = AddC(@, c.default)],
                       !.entitled = [@ EXCEPT ![pk] = AddC(@, c.default)],
                       !.events = IF sd.primary.t = "MAIN" THEN @ ELSE Append(@, [sd |-> sd.name, share |-> sd.name \o "_primary", dest |-> pk, amount |-> c.default]),
                       !.inflows = Append(@, [sd |-> sd.name, inflow |-> a.inflow])]

\* end of block: pay the integer part of every non-internal leftover
IntKeys == { Key(a) : a \in { x \in Accs : x.t = "INT" } }
PayKeys(r) == { k \in DOMAIN r : k # MAINK /\ k \notin IntKeys /\ AnyGE1(r[k]) }
PayAll(st, F) ==
  LET ks == { k \in PayKeys(st.rem) : ("pay:" \o k) \notin F }
      out == SumSet(ks, LAMBDA k : TruncC(st.rem[k]))
  IN [st EXCEPT !.bal = [k \in DOMAIN st.bal |->
                            IF k = MAINK THEN SubC(st.bal[k], out)
                            ELSE IF k \in ks THEN AddC(st.bal[k], TruncC(st.rem[k])) ELSE st.bal[k]],
                !.paid = [k \in DOMAIN st.paid |-> IF k \in ks THEN AddC(st.paid[k], TruncC(st.rem[k])) ELSE st.paid[k]],
                !.rem = [k \in DOMAIN st.rem |-> IF k \in ks THEN FracC(st.rem[k]) ELSE st.rem[k]]]

\* the block on an explicit pre-state (used by the composition in Chain.tla)
RunBlockFrom(b0, r0, e0, p0, q0, c, F) ==
  LET st0 == [bal |-> b0, rem |-> r0, inflow |-> ZeroC, default |-> ZeroC, entitled |-> e0, paid |-> p0,
              requeued |-> q0, events |-> <<>>, inflows |-> <<>>, sdname |-> "", exact |-> TRUE]
      st1 == FoldSeq(LAMBDA x, y : RunSD(F, x, y), st0, c)
  IN PayAll(st1, F)
RunBlock(c, F) == RunBlockFrom(bal, rem, entitled, paid, requeued, c, F)

\* fault targets that make sense for a configuration
FaultTargets(c) == { "sweep:" \o Key(Flat(c, 1)[i].acc) : i \in { j \in DOMAIN Flat(c, 1) : Flat(c, 1)[j].role = "S" /\ IsBank(Flat(c, 1)[j].acc) } }
                   \cup { "pay:" \o Key(Flat(c, 1)[i].acc) : i \in { j \in DOMAIN Flat(c, 1) : Flat(c, 1)[j].role = "D" /\ IsBank(Flat(c, 1)[j].acc) } }
                   \cup { "pay:" \o BURNK }

-----------------------------------------------------------------------------
NoCfg == <<>>
Universe == { Key(a) : a \in Accs } \cup {MAINK, BURNK}
BankKeys == { Key(a) : a \in { x \in Accs : IsBank(x) } } \cup {MAINK}

Init ==
  /\ cfg = NoCfg
  /\ bal = TLCEval([k \in BankKeys |-> ZeroC]) /\ rem = TLCEval([k \in Universe |-> ZeroC])
  /\ entitled = TLCEval([k \in Universe |-> ZeroC]) /\ paid = TLCEval([k \in Universe |-> ZeroC]) /\ requeued = TLCEval([k \in Universe |-> ZeroC])
  /\ deposited = TLCEval(ZeroC)
  /\ blocks = 0 /\ phase = "dep" /\ nupd = 0 /\ halted = FALSE /\ exact = TRUE
  /\ act = [name |-> "init"]

Configured == cfg # NoCfg

Configure(c) ==
  /\ ~Configured /\ ValidConfig(c)
  /\ cfg' = c
  /\ act' = [name |-> "configure"]
  /\ UNCHANGED <<bal, rem, blocks, phase, nupd, entitled, paid, requeued, deposited, halted, exact>>

\* coins arrive: v is a function from (a subset of) bank keys to coins
Deposit(v) ==
  /\ Configured /\ ~halted /\ phase = "dep" /\ blocks < MaxBlocks
  /\ DOMAIN v \subseteq (KeysOf(cfg) \cup {MAINK}) \cap BankKeys
  /\ bal' = TLCEval([k \in DOMAIN bal |-> IF k \in DOMAIN v THEN AddC(bal[k], v[k]) ELSE bal[k]])
  /\ deposited' = TLCEval(AddC(deposited, SumSet(DOMAIN v, LAMBDA k : v[k])))
  /\ phase' = "blk"
  /\ act' = [name |-> "deposit", v |-> v]
  /\ UNCHANGED <<cfg, rem, blocks, nupd, entitled, paid, requeued, halted, exact>>

Block(F) ==
  /\ Configured /\ ~halted /\ phase = "blk"
  /\ F \subseteq FaultTargets(cfg)
  /\ LET r == RunBlock(cfg, F) IN
       \* (TLCEval: TLC must hold fully evaluated function values in its state queue)
       /\ bal' = TLCEval(r.bal) /\ rem' = TLCEval(r.rem) /\ entitled' = TLCEval(r.entitled) /\ paid' = TLCEval(r.paid) /\ requeued' = TLCEval(r.requeued)
       /\ exact' = (exact /\ r.exact)
       /\ act' = [name |-> "block", faults |-> F, events |-> r.events, inflows |-> r.inflows]
  /\ blocks' = blocks + 1 /\ phase' = "dep"
  /\ UNCHANGED <<cfg, nupd, deposited, halted>>

(* the four parameter-update messages: ValidateBasic, then the handler *)
ReplaceAt(c, i, sd) == [c EXCEPT ![i] = sd]
UpdateResult(u) ==
  CASE u.kind = "params" -> [ok |-> ValidConfig(u.subs) /\ u.subs # <<>>, cfg |-> u.subs]
    [] u.kind = "sub" ->
         LET is == { i \in DOMAIN cfg : cfg[i].name = u.sd.name }
         IN IF ~ValidSD(u.sd) \/ is = {} THEN [ok |-> FALSE, cfg |-> cfg]
            ELSE LET i == CHOOSE i \in is : \A j \in is : i <= j
                     n == ReplaceAt(cfg, i, u.sd)
                 IN [ok |-> ValidConfig(n), cfg |-> n]
    [] u.kind = "burn" ->
         LET is == { i \in DOMAIN cfg : cfg[i].name = u.sdname }
         IN IF u.sdname = "" \/ ~ValidShareVal(u.value) \/ is = {} THEN [ok |-> FALSE, cfg |-> cfg]
            ELSE LET i == CHOOSE i \in is : \A j \in is : i <= j
                     n == [cfg EXCEPT ![i].burn = u.value]
                 IN [ok |-> ValidConfig(n), cfg |-> n]
    [] u.kind = "share" ->
         \* the handler looks the share up by destination-share name over all sub-distributors (first match)
         LET ps == { <<i, j>> \in (DOMAIN cfg) \X (1..8) : j \in DOMAIN cfg[i].shares /\ cfg[i].shares[j].name = u.dest }
         IN IF u.sdname = "" \/ u.dest = "" \/ ~ValidShareVal(u.value) \/ ps = {} THEN [ok |-> FALSE, cfg |-> cfg]
            ELSE LET p == CHOOSE p \in ps : \A q \in ps : p[1] < q[1] \/ (p[1] = q[1] /\ p[2] <= q[2])
                     n == [cfg EXCEPT ![p[1]].shares[p[2]].share = u.value]
                 IN [ok |-> ValidConfig(n), cfg |-> n]

Update(u) ==
  /\ Configured /\ ~halted /\ nupd < MaxUpdates /\ phase = "dep"
  /\ LET r == UpdateResult(u)
         ok == u.auth = "gov" /\ r.ok
     IN /\ ok \/ blocks \in RejectProbeBlocks
        /\ cfg' = IF ok THEN r.cfg ELSE cfg
        /\ nupd' = IF ok THEN nupd + 1 ELSE nupd
        /\ act' = [name |-> "update", u |-> u, ok |-> ok]
  /\ UNCHANGED <<bal, rem, blocks, phase, entitled, paid, requeued, deposited, halted, exact>>

ExportImport ==
  /\ Configured /\ ~halted /\ phase = "dep" /\ blocks > 0
  /\ act.name # "export"
  /\ act' = [name |-> "export"]
  /\ UNCHANGED <<cfg, bal, rem, blocks, phase, nupd, entitled, paid, requeued, deposited, halted, exact>>

Next ==
  \/ \E c \in Configs : Configure(c)
  \/ \E v \in DepositVecs : Deposit(v)
  \/ \E F \in FaultSets : Block(F)
  \/ \E u \in UpdateTries : Update(u)
  \/ ExportImport

Spec == Init /\ [][Next]_vars

ViewNoAct == <<cfg, bal, rem, blocks, phase, nupd, entitled, paid, requeued, deposited, halted, exact>>

-----------------------------------------------------------------------------
(* ---- properties ---- *)
Idle == phase = "dep"
\* C03: leftovers are non-negative, sum to a whole number of coins, and that sum is the main account balance
NonNegative == \A k \in DOMAIN rem : \A d \in Denoms : rem[k][d] >= 0
BooksMatch  == (Configured /\ Idle) => SumRem(rem) = DecC(bal[MAINK])
\* C03: every coin that entered is on a source, delivered, burned, or on the main account
Conservation == LET onAccts == SumSet(DOMAIN bal \ {MAINK}, LAMBDA k : bal[k])
                IN deposited = AddC(AddC(onAccts, bal[MAINK]), paid[BURNK])
\* burned coins are not on any account: paid[BURNK] counts them, bank accounts never hold them
\* C04: delivered + recorded + passed on = entitled, exactly, per destination
ShareExact  == \A k \in DOMAIN rem : k # MAINK =>
                  \A d \in Denoms : DecFromInt(paid[k][d]) + rem[k][d] + requeued[k][d] = entitled[k][d]
\* C14: after a fault-free block every non-internal destination is paid up to the fraction
PaidUp      == (act.name = "block" /\ act.faults = {}) => \A k \in DOMAIN rem : (k \notin IntKeys /\ k # MAINK) => ~AnyGE1(rem[k])
\* internal accounts of the current configuration end every fault-free block empty (they only pass on)
NeverHalts  == ~halted
StoredParamsValid == Configured => ValidConfig(cfg)
\* C18: the events of a sub-distributor add up to its inflow (the part destined to MAIN has no event)
RECURSIVE EvSum(_, _, _)
EvSum(evs, name, i) == IF i = 0 THEN ZeroC
                       ELSE IF evs[i].sd = name THEN AddC(evs[i].amount, EvSum(evs, name, i - 1)) ELSE EvSum(evs, name, i - 1)
MainPart(name, inflow) ==
  LET i == CHOOSE i \in DOMAIN cfg : cfg[i].name = name
      sd == cfg[i]
      toMain == { j \in DOMAIN sd.shares : sd.shares[j].dest.t = "MAIN" }
      fromShares == SumSet(toMain, LAMBDA j : MulTruncC(inflow, sd.shares[j].share))
  IN IF sd.primary.t = "MAIN"
       THEN \* the primary is MAIN: its part is the inflow minus everything else
            LET others == SumSet(DOMAIN sd.shares \ toMain, LAMBDA j : MulTruncC(inflow, sd.shares[j].share))
            IN SubC(SubC(inflow, others), MulTruncC(inflow, sd.burn))
       ELSE fromShares
EventsAddUp == act.name = "block" =>
                 \A i \in DOMAIN act.inflows :
                    AddC(EvSum(act.events, act.inflows[i].sd, Len(act.events)), MainPart(act.inflows[i].sd, act.inflows[i].inflow)) = act.inflows[i].inflow
OnlyGov == [][(act'.name = "update" /\ act'.u.auth # "gov") => (cfg' = cfg /\ ~act'.ok)]_vars
RejectedUnchanged == [][(act'.name = "update" /\ ~act'.ok) => UNCHANGED <<cfg, bal, rem>>]_vars
=============================================================================
