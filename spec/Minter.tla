------------------------------- MODULE Minter -------------------------------
(* x/cfeminter of c4e-chain: the emission state machine.

   One action per public entry point:
     Configure(c)        genesis (InitGenesis with params c, fresh minter state)
     Block(t)            cfeminter.BeginBlocker at block time t  (keeper.Mint + recursion)
     Update(k, a, u)     MsgUpdateParams ("full") / MsgUpdateMintersParams ("minters")
                         signed by authority a with payload u
     ExportImport        ExportGenesis ; InitGenesis on a fresh store (state must survive)
   Queries (State, Params, Inflation) are part of the observation Obs.

   Time is an integer tick; the harness maps a tick to YearNs / YearTicks
   nanoseconds so that the hard-coded year of CalculateInflation is YearTicks
   ticks.  Decimals are integers scaled by P (DecArith). *)
EXTENDS Integers, Sequences, FiniteSets, TLC, MinterMath

CONSTANTS Configs,      \* initial configurations (records, see ValidCfg)
          UpdateTries,  \* update attempts <<kind, authority, payload>>; "gov" is the governance account
          Tmax,         \* last block time explored
          YearTicks,    \* ticks per year (inflation)
          Supply0,      \* supply of the mint denomination at genesis
          MaxUpdates,   \* bound on the number of accepted Update actions per behaviour
          RejectProbeTimes, \* bounding device: rejected updates are explored only at these block times
          Quirks        \* named deviations of the code from the reference semantics ({} = reference)

VARIABLES cfg,      \* stored Params: [denom, start, periods] ; periods[i] = [id, kind, end, amount, step, mult]
          ms,       \* stored MinterState: [seq, minted, remPrev, remToMint, last]
          hist,     \* MinterStateHistory, ordered by sequence id
          now,      \* block time of the last block
          total,    \* ghost: everything minted since genesis
          sup,      \* bank supply per mint denomination
          halted,   \* ghost: BeginBlocker panicked
          nupd,     \* ghost: number of updates so far
          exact,    \* ghost: no decimal digit was lost so far at this P (the run is P-independent)
          act       \* last action with its observable outputs

vars == <<cfg, ms, hist, now, total, sup, halted, nupd, exact, act>>

NoEnd == -1
NoCfg == [denom |-> "", start |-> 0, periods |-> <<>>]
MS0 == [seq |-> 1, minted |-> 0, remPrev |-> 0, remToMint |-> 0, last |-> 0]

-----------------------------------------------------------------------------
(* types.Params.Validate  (denomination rule as documented: a valid coin
   denomination; the code before the fix only required non-empty) *)
ValidDenoms == {"uc4e", "stake"}
ValidPeriod(p) ==
  CASE p.kind = "NO"  -> TRUE
    [] p.kind = "LIN" -> p.end # NoEnd /\ p.amount >= 0
    [] p.kind = "EXP" -> p.amount > 0 /\ p.mult >= 0 /\ p.step > 0
    [] OTHER -> FALSE

ValidMinters(c) ==
  LET n == Len(c.periods) IN
  /\ n >= 1
  /\ c.periods[1].id > 0
  /\ \A i \in 1..(n-1) : c.periods[i+1].id = c.periods[i].id + 1
  /\ c.periods[n].end = NoEnd
  /\ \A i \in 1..(n-1) : c.periods[i].end # NoEnd
  /\ n > 1 => c.periods[1].end > c.start
  /\ \A i \in 2..(n-1) : c.periods[i].end > c.periods[i-1].end
  /\ \A i \in 1..n : ValidPeriod(c.periods[i])

ValidCfg(c) == c.denom \in ValidDenoms /\ ValidMinters(c)

HasMinter(c, s) == \E i \in DOMAIN c.periods : c.periods[i].id = s
IdxOf(c, s) == CHOOSE i \in DOMAIN c.periods : c.periods[i].id = s
\* getCurrentAndPreviousMinter: the previous minter is the one with the largest id below s
HasPrev(c, s) == \E i \in DOMAIN c.periods : c.periods[i].id < s
PrevIdx(c, s) == CHOOSE i \in DOMAIN c.periods :
                    /\ c.periods[i].id < s
                    /\ \A j \in DOMAIN c.periods : c.periods[j].id < s => c.periods[j].id <= c.periods[i].id
StartOf(c, s) == IF HasPrev(c, s) THEN c.periods[PrevIdx(c, s)].end ELSE c.start

-----------------------------------------------------------------------------
(* types.LinearMinting / ExponentialStepMinting / NoMinting . AmountToMint *)
LinAmount(p, st, t) ==
  IF t > p.end THEN DecFromInt(p.amount)
  ELSE IF t < st THEN 0
  ELSE LinPart(p.amount, t - st, p.end - st)
LinExact(p, st, t) ==
  (t > p.end \/ t < st) \/ QuoIntExact(DecMulInt(DecFromInt(p.amount), t - st), p.end - st)

\* epoch amount after k multiplications: amount * mult^k with Dec.Mul rounding at every step
RECURSIVE EpochAmount(_, _)
EpochAmount(p, k) == IF k <= 0 THEN DecFromInt(p.amount) ELSE NextEpoch(EpochAmount(p, k - 1), p.mult)
RECURSIVE EpochExact(_, _)
EpochExact(p, k) == IF k <= 0 THEN TRUE ELSE EpochExact(p, k - 1) /\ MulExact(EpochAmount(p, k - 1), p.mult)
\* sum of the first n epochs (i = 0 .. n-1)
RECURSIVE EpochSum(_, _)
EpochSum(p, n) == IF n <= 0 THEN 0 ELSE EpochSum(p, n - 1) + EpochAmount(p, n - 1)

ExpNow(p, t) == IF p.end # NoEnd /\ t > p.end THEN p.end ELSE t
ExpAmount(p, st, t) ==
  LET nw == ExpNow(p, t)
      n == TQuo(nw - st, p.step)                    \* Go integer division
      passedInEpoch == nw - (st + n * p.step)
      cur == IF n > 0 THEN EpochAmount(p, n) ELSE DecFromInt(p.amount)
  IN EpochSum(p, n) + ExpPart(cur, passedInEpoch, p.step)
ExpExact(p, st, t) ==
  LET nw == ExpNow(p, t)
      n == TQuo(nw - st, p.step)
      passedInEpoch == nw - (st + n * p.step)
      cur == IF n > 0 THEN EpochAmount(p, n) ELSE DecFromInt(p.amount)
  IN EpochExact(p, n) /\ QuoIntExact(DecMulInt(cur, passedInEpoch), p.step)

AmountToMint(p, st, t) ==
  CASE p.kind = "LIN" -> LinAmount(p, st, t)
    [] p.kind = "EXP" -> ExpAmount(p, st, t)
    [] OTHER -> 0
AmountExact(p, st, t) ==
  CASE p.kind = "LIN" -> LinExact(p, st, t)
    [] p.kind = "EXP" -> ExpExact(p, st, t)
    [] OTHER -> TRUE

(* keeper.mint: one recursion level per period that ends at or before t.
   Result: new minter state, new history, amount minted, error (=> BeginBlocker panics) *)
RECURSIVE MintRec(_, _, _, _)
MintRec(c, m, h, t) ==
  IF ~HasMinter(c, m.seq) THEN [ms |-> m, hist |-> h, amount |-> 0, err |-> TRUE, exact |-> TRUE]
  ELSE LET p == c.periods[IdxOf(c, m.seq)]
           st == StartOf(c, m.seq)
           expected == AmountToMint(p, st, t) + m.remPrev
           amount == TruncInt(expected) - m.minted
           rem == expected - TruncDec(expected)
           ex == AmountExact(p, st, t)
       IN IF amount < 0 THEN [ms |-> m, hist |-> h, amount |-> 0, err |-> FALSE, exact |-> ex]
          ELSE LET m1 == [m EXCEPT !.minted = @ + amount, !.last = t, !.remToMint = rem]
               IN IF p.end = NoEnd \/ t < p.end
                    THEN [ms |-> m1, hist |-> h, amount |-> amount, err |-> FALSE, exact |-> ex]
                    ELSE LET m2 == [seq |-> m.seq + 1, minted |-> 0, remToMint |-> 0, remPrev |-> rem, last |-> t]
                             r == MintRec(c, m2, Append(h, m1), t)
                         IN [r EXCEPT !.amount = IF r.err THEN @ ELSE @ + amount, !.exact = @ /\ ex]

\* keeper.Mint guards
MintAt(c, m, h, t) ==
  IF t < c.start \/ m.last >= t THEN [ms |-> m, hist |-> h, amount |-> 0, err |-> FALSE, exact |-> TRUE]
  ELSE MintRec(c, m, h, t)

(* keeper.GetCurrentInflation / CalculateInflation; -1 stands for the error answer *)
Inflation(c, m, supply, t) ==
  IF ~HasMinter(c, m.seq) THEN -1
  ELSE LET p == c.periods[IdxOf(c, m.seq)]
           st == StartOf(c, m.seq)
       IN IF st > t THEN 0
          ELSE CASE p.kind = "LIN" ->
                      IF supply <= 0 THEN 0
                      \* documented: zero once the period's end has passed; the code has no such test
                      \* for linear periods (quirk "LinInflationAfterEnd")
                      ELSE IF t >= p.end /\ "LinInflationAfterEnd" \notin Quirks THEN 0
                      ELSE YearlyOverSupply(DecFromInt(p.amount), YearTicks, p.end - st, supply)
                 [] p.kind = "EXP" ->
                      IF supply <= 0 THEN 0
                      ELSE IF p.end # NoEnd /\ t >= p.end THEN 0
                      ELSE LET n == TQuo(t - st, p.step)
                               cur == IF n > 0 THEN EpochAmount(p, n) ELSE DecFromInt(p.amount)
                           IN YearlyOverSupply(cur, YearTicks, p.step, supply)
                 [] OTHER -> 0

Supply == IF cfg.denom \in DOMAIN sup THEN sup[cfg.denom] ELSE 0

-----------------------------------------------------------------------------
Init ==
  /\ cfg = NoCfg /\ ms = MS0 /\ hist = <<>> /\ now = 0 /\ total = 0
  /\ sup = [d \in ValidDenoms |-> Supply0]
  /\ halted = FALSE /\ nupd = 0 /\ exact = TRUE
  /\ act = [name |-> "init"]

Configured == cfg # NoCfg

Configure(c) ==
  /\ ~Configured
  /\ ValidCfg(c) /\ HasMinter(c, 1)
  /\ cfg' = c
  /\ act' = [name |-> "configure"]
  /\ UNCHANGED <<ms, hist, now, total, sup, halted, nupd, exact>>

Block(t) ==
  /\ Configured /\ ~halted /\ t > now /\ t <= Tmax
  /\ LET r == MintAt(cfg, ms, hist, t) IN
       /\ now' = t
       /\ ms' = r.ms /\ hist' = r.hist
       /\ halted' = r.err
       /\ total' = total + r.amount
       /\ sup' = [sup EXCEPT ![cfg.denom] = @ + r.amount]
       /\ exact' = (exact /\ r.exact)
       /\ act' = [name |-> "block", t |-> t, minted |-> r.amount, panic |-> r.err]
  /\ UNCHANGED <<cfg, nupd>>

(* both update messages: ValidateBasic (authority, payload validation) then the
   handler (authority, ContainsMinter, SetParams -> Validate) *)
Update(kind, a, u) ==
  /\ Configured /\ ~halted /\ nupd < MaxUpdates
  /\ LET new == IF kind = "full" THEN u ELSE [u EXCEPT !.denom = cfg.denom]
         ok == a = "gov" /\ ValidCfg(new) /\ HasMinter(new, ms.seq)
     IN /\ ok \/ now \in RejectProbeTimes
        /\ cfg' = IF ok THEN new ELSE cfg
        /\ nupd' = IF ok THEN nupd + 1 ELSE nupd       \* a rejected update changes nothing at all
        /\ act' = [name |-> "update", kind |-> kind, auth |-> a, payload |-> u, ok |-> ok]
  /\ UNCHANGED <<ms, hist, now, total, sup, halted, exact>>

ExportImport ==
  /\ Configured /\ ~halted
  /\ act.name # "export"          \* no point in exporting twice in a row
  /\ act' = [name |-> "export"]
  /\ UNCHANGED <<cfg, ms, hist, now, total, sup, halted, nupd, exact>>

Next ==
  \/ \E c \in Configs : Configure(c)
  \/ \E t \in 1..Tmax : Block(t)
  \/ \E x \in UpdateTries : Update(x[1], x[2], x[3])
  \/ ExportImport

Spec == Init /\ [][Next]_vars

-----------------------------------------------------------------------------
ViewNoAct == <<cfg, ms, hist, now, total, sup, halted, nupd, exact>>

(* What the harness can observe on the real application *)
Obs == [cfg |-> cfg, ms |-> ms, hist |-> hist, now |-> now, total |-> total,
        halted |-> halted, exact |-> exact,
        infl |-> IF Configured /\ ~halted THEN Inflation(cfg, ms, Supply, now) ELSE 0]

-----------------------------------------------------------------------------
(* ---- Independent oracle: the schedule's cumulative emission at time T, written
        from the documentation (sum of finished periods + current period at T),
        without reference to the step algorithm or the minter state ---- *)
PeriodTotal(c, i) == AmountToMint(c.periods[i], StartOf(c, c.periods[i].id), c.periods[i].end)
RECURSIVE SumTotals(_, _)
SumTotals(c, i) == IF i = 0 THEN 0 ELSE SumTotals(c, i - 1) + PeriodTotal(c, i)
RECURSIVE CurIdx(_, _, _)
CurIdx(c, i, T) == IF i > Len(c.periods) THEN i
                   ELSE IF c.periods[i].end = NoEnd \/ T < c.periods[i].end THEN i ELSE CurIdx(c, i + 1, T)
Cumulative(c, T) ==
  IF T < c.start THEN 0
  ELSE LET k == CurIdx(c, 1, T)
       IN SumTotals(c, k - 1) +
          (IF k <= Len(c.periods) THEN AmountToMint(c.periods[k], StartOf(c, c.periods[k].id), T) ELSE 0)

(* ---- Properties ---- *)
TypeOK == /\ now \in 0..Tmax /\ total >= 0 /\ halted \in BOOLEAN
          /\ ms.minted >= 0 /\ ms.seq >= 1

\* C02: cumulative emission equals the integer part of the schedule, whatever the block partition
\* (stated for behaviours without parameter updates: an update changes the schedule itself)
ScheduleConformance == (Configured /\ ~halted /\ nupd = 0 /\ now >= cfg.start /\ now > 0) => total = TruncInt(Cumulative(cfg, now))
\* C02: a finished linear period has minted exactly its amount
LinearExact == nupd = 0 => \A k \in DOMAIN hist :
                 LET p == cfg.periods[IdxOf(cfg, hist[k].seq)] IN p.kind = "LIN" => hist[k].minted = p.amount
\* C02: remainders are carried, never negative, always a proper fraction
CarryOK == nupd = 0 => /\ ms.remPrev >= 0 /\ ms.remPrev < P /\ ms.remToMint >= 0 /\ ms.remToMint < P
                       /\ \A k \in DOMAIN hist : hist[k].remToMint >= 0 /\ hist[k].remToMint < P
\* C02: no block mints a negative amount, total never decreases
Monotone == [][total' >= total]_vars
NonNegBlock == act.name = "block" => act.minted >= 0
\* C10 / C13: the chain never halts and the current period always exists in the stored parameters
NeverHalts == ~halted
CurrentPeriodExists == Configured => HasMinter(cfg, ms.seq)
StoredParamsValid == Configured => ValidCfg(cfg)
\* C13: only governance changes parameters; a rejected update changes nothing
OnlyGov == [][(act'.name = "update" /\ act'.auth # "gov") => (cfg' = cfg /\ ~act'.ok)]_vars
RejectedUnchanged == [][(act'.name = "update" /\ ~act'.ok) => UNCHANGED <<cfg, ms, hist, total, sup>>]_vars
\* C12: export / import does not change anything observable
ExportNeutral == [][act'.name = "export" => UNCHANGED <<cfg, ms, hist, now, total, sup>>]_vars
\* C18: the mint event amount is the supply change of the block (by construction of act.minted)
MintEventIsDelta == [][act'.name = "block" => total' - total = act'.minted]_vars

(* C19: inside one period and (for EXP) one step, what a block mints equals
   inflation * supply * dt / year up to rounding.  infl*supply is the yearly
   emission truncated at 1/P per unit of supply, hence the slack term. *)
SameStep(p, st, t1, t2) ==
  CASE p.kind = "EXP" -> TQuo(t1 - st, p.step) = TQuo(t2 - st, p.step) /\ (p.end = NoEnd \/ t2 < p.end)
    [] p.kind = "LIN" -> t2 < p.end
    [] OTHER -> TRUE
InflationMatchesEmission ==
  [][(act'.name = "block" /\ nupd = 0 /\ HasMinter(cfg, ms.seq) /\ ms'.seq = ms.seq /\ now >= cfg.start /\ ms.last = now) =>
       LET p == cfg.periods[IdxOf(cfg, ms.seq)]
           st == StartOf(cfg, ms.seq)
           infl == Inflation(cfg, ms, Supply, now)
           dt == now' - now
       IN (st <= now /\ SameStep(p, st, now, now')) =>
            \* |minted*Year*P - infl*supply*dt| <= (2*Year*P + supply*dt)
            Abs(act'.minted * YearTicks * P - infl * Supply * dt) <= 2 * YearTicks * P + Supply * dt + dt * P]_vars
\* C19: zero before the start, for no-minting periods, and after an (EXP) period's end
InflationZeroCases ==
  (Configured /\ ~halted /\ HasMinter(cfg, ms.seq)) =>
     LET p == cfg.periods[IdxOf(cfg, ms.seq)]
         infl == Inflation(cfg, ms, Supply, now)
     IN /\ (StartOf(cfg, ms.seq) > now => infl = 0)
        /\ (p.kind = "NO" => infl = 0)
        /\ (p.end # NoEnd /\ now >= p.end => infl = 0)
=============================================================================
