------------------------------ MODULE Signature ------------------------------
(* x/cfesignature of c4e-chain: a registry of reference payload links (write once)
   and signatures, with a verification query.

   Cryptography is abstract: a key k has a certificate Cert(k) and a type
   ("ecdsa" / "rsa"); a signature value is the pair <<signing key, payload>>;
   x509.CheckSignature(cert of k', algorithm alg, payload m, signature <<k, m'>>)
   succeeds iff k = k' /\ m = m' /\ alg is the algorithm of k's type.  The
   payload the module verifies is H(address : reference id : stored link),
   modelled as the triple.  The harness concretises keys with generated ECDSA
   P-256 / RSA-2048 certificates (soundness relative to Go's crypto/x509).

   Actions: Publish(key, value), Store(a, r, rec), CreateAccount(addr, pk),
   Verify(a, r) (query, result in act), ExportImport. *)
EXTENDS Integers, Sequences, FiniteSets, TLC

CONSTANTS Addrs,      \* account addresses used in signatures
          Refs,       \* reference ids
          VarKeys,    \* other store keys a signer may publish under: strings that are not the hash of any reference id
                      \* (the harness concretises them adversarially: the hash of a reference id in upper case, with a trailing space, ...)
          Links,      \* payload link values
          Keys,       \* signing keys
          KeyType,    \* Keys -> {"ecdsa", "rsa"}
          Tries,      \* attempts (records with field m)
          MaxMsgs,
          Existing,   \* addresses that already have an account (for CreateAccount)
          Quirks

VARIABLES links,   \* reference id or other key -> link or "none"  (the store key of a reference id is H(reference id))
          sigs,    \* <<address, reference id>> -> record or NoSig   (the store key is H(address : reference id))
          accts,   \* address -> [k: "none" | "orig" (pre-existing, untouched) | "created", pk]
          msgs, act

vars == <<links, sigs, accts, msgs, act>>

None == "none"
LinkKeys == Refs \cup VarKeys
NoSig == [present |-> FALSE]
NoAcc == [k |-> "none", pk |-> ""]
AlgOf(t) == IF t = "ecdsa" THEN "ecdsaWithSha256" ELSE "sha256WithRsaEncryption"
KnownAlgs == {"ecdsaWithSha256", "sha256WithRsaEncryption", "dsaWithSha256"}

\* a signature record as stored: [present, signer, over (payload triple), alg, cert, wellformed]
Valid(rec, a, r, l) ==
  /\ rec.present /\ rec.wellformed
  /\ rec.alg \in KnownAlgs
  /\ rec.cert \in Keys
  /\ rec.alg = AlgOf(KeyType[rec.cert])
  /\ rec.signer = rec.cert
  /\ rec.over = <<a, r, l>>

Init ==
  /\ links = [r \in LinkKeys |-> None] /\ sigs = [x \in Addrs \X Refs |-> NoSig]
  /\ accts = [a \in Addrs |-> IF a \in Existing THEN [k |-> "orig", pk |-> ""] ELSE NoAcc]
  /\ msgs = 0 /\ act = [name |-> "init"]

\* MsgPublishReferencePayloadLink(key, value): write once per key string; the key is chosen by the signer (H(r) or anything else)
Publish(r, l) ==
  /\ msgs < MaxMsgs /\ act.name # "init"
  /\ LET ok == links[r] = None IN
       /\ links' = IF ok THEN [links EXCEPT ![r] = l] ELSE links
       /\ act' = [name |-> "publish", r |-> r, l |-> l, ok |-> ok]
  /\ msgs' = msgs + 1 /\ UNCHANGED <<sigs, accts>>

\* MsgStoreSignature(storage key = H(a : r), JSON): malformed JSON is rejected, otherwise stored (overwrites)
Store(a, r, rec, json) ==
  /\ msgs < MaxMsgs /\ act.name # "init"
  /\ LET ok == json # "malformed" IN
       /\ sigs' = IF ok THEN [sigs EXCEPT ![<<a, r>>] = rec] ELSE sigs
       /\ act' = [name |-> "store", a |-> a, r |-> r, rec |-> rec, json |-> json, ok |-> ok]
  /\ msgs' = msgs + 1 /\ UNCHANGED <<links, accts>>

\* MsgCreateAccount(address, public key): documented as creating a *new* account
CreateAccount(a, pk) ==
  /\ msgs < MaxMsgs /\ act.name # "init"
  /\ LET ok == pk # "malformed" /\ a # "malformed" /\ accts[a] = NoAcc IN
       /\ accts' = IF ok THEN [accts EXCEPT ![a] = [k |-> "created", pk |-> pk]] ELSE accts
       /\ act' = [name |-> "createaccount", a |-> a, pk |-> pk, ok |-> ok]
  /\ msgs' = msgs + 1 /\ UNCHANGED <<links, sigs>>

\* Query VerifySignature(address, reference id)
VerifyResult(a, r) ==
  IF ~sigs[<<a, r>>].present \/ links[r] = None THEN [valid |-> FALSE]
  ELSE LET rec == sigs[<<a, r>>] IN
       IF Valid(rec, a, r, links[r]) THEN [valid |-> TRUE, signer |-> rec.signer, over |-> rec.over, alg |-> rec.alg, cert |-> rec.cert]
       ELSE [valid |-> FALSE]
Verify(a, r) ==
  /\ act.name \notin {"verify", "init"}
  /\ act' = [name |-> "verify", a |-> a, r |-> r, res |-> VerifyResult(a, r)]
  /\ UNCHANGED <<links, sigs, accts, msgs>>

ExportImport ==
  /\ act.name \notin {"export", "init"}
  /\ act' = [name |-> "export"]
  /\ UNCHANGED <<links, sigs, accts, msgs>>

Setup == act.name = "init" /\ act' = [name |-> "configure"] /\ UNCHANGED <<links, sigs, accts, msgs>>

Next ==
  \/ Setup
  \/ \E x \in { t \in Tries : t.m = "publish" } : Publish(x.r, x.l)
  \/ \E x \in { t \in Tries : t.m = "store" } : Store(x.a, x.r, x.rec, x.json)
  \/ \E x \in { t \in Tries : t.m = "createaccount" } : CreateAccount(x.a, x.pk)
  \/ \E a \in Addrs, r \in Refs : Verify(a, r)
  \/ ExportImport

Spec == Init /\ [][Next]_vars
ViewNoAct == <<links, sigs, accts, msgs>>

(* ---- properties ---- *)
\* C15: a published link is never overwritten or removed
WriteOnce == [][\A r \in LinkKeys : links[r] # None => links'[r] = links[r]]_vars
\* C15: verification reports valid exactly when the stored signature verifies over address : reference : stored link, and echoes the stored fields
VerifySound == act.name = "verify" =>
   LET rec == sigs[<<act.a, act.r>>] IN
   /\ act.res.valid <=> (rec.present /\ links[act.r] # None /\ Valid(rec, act.a, act.r, links[act.r]))
   /\ act.res.valid => (act.res.signer = rec.signer /\ act.res.over = rec.over /\ act.res.alg = rec.alg /\ act.res.cert = rec.cert)
\* C09: account creation never replaces an existing account
NoOverwrite == [][\A a \in Addrs : accts[a] # NoAcc => accts'[a] = accts[a]]_vars
=============================================================================
