----------------------------- MODULE MinterMath -----------------------------
(* The arithmetic of x/cfeminter's minting configurations as pure, Apalache-typed operators over
   DecArith: the building blocks of LinearMinting / ExponentialStepMinting . AmountToMint and
   CalculateInflation.  Minter.tla builds the schedule from them (TLC, small P); the numeric stage
   checks steps recorded from the real code against the same operators at P = 10^18 (Apalache). *)
EXTENDS Integers, DecArith

\* LinearMinting.AmountToMint inside the period: amount * passed / period (times in any common unit)
\* @type: (Int, Int, Int) => Int;
LinPart(amount, passed, period) == DecQuoInt(DecMulInt(DecFromInt(amount), passed), period)
\* one step of the exponential decay: the next epoch's amount
\* @type: (Int, Int) => Int;
NextEpoch(h, mult) == DecMul(h, mult)
\* the part of the running epoch that is due: cur * passedInEpoch / step
\* @type: (Int, Int, Int) => Int;
ExpPart(cur, passedInEpoch, step) == DecQuoInt(DecMulInt(cur, passedInEpoch), step)
\* CalculateInflation: yearly emission (a decimal) divided by the supply
\* @type: (Int, Int, Int, Int) => Int;
YearlyOverSupply(rateAmount, year, per, supply) == DecQuoInt(DecQuoInt(DecMulInt(rateAmount, year), per), supply)
=============================================================================
