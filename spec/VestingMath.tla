----------------------------- MODULE VestingMath -----------------------------
(* The arithmetic of continuous vesting accounts (x/auth, sdk 0.46.10) and of
   x/cfevesting's split / new-account computations, as pure operators over the
   fixed-point decimals of DecArith.  The same text is evaluated by TLC (small P,
   inside Vesting.tla and MC_Split) and by Apalache at P = 10^18 on steps recorded
   from the real code (spec/num). *)
EXTENDS Integers, DecArith

\* ContinuousVestingAccount.GetVestedCoins for one denomination: original vesting ov, start s, end e, block time t
\* @type: (Int, Int, Int, Int) => Int;
Vested1(ov, s, e, t) ==
  IF t <= s THEN 0
  ELSE IF t >= e THEN ov
  ELSE RoundInt(DecMul(DecFromInt(ov), DecQuo(DecFromInt(t - s), DecFromInt(e - s))))
\* @type: (Int, Int, Int, Int) => Int;
Vesting1(ov, s, e, t) == ov - Vested1(ov, s, e, t)

(* UnlockUnbondedContinuousVestingAccountCoins: the new original vesting after unlocking u.
   rounds = TRUE: the quotient is taken with Dec.Quo (round half even at the last digit);
   rounds = FALSE: with Dec.QuoTruncate. *)
\* @type: (Int, Int, Int, Int, Int, Bool) => Int;
SplitOVq(ov, s, e, t, u, rounds) ==
  IF u = 0 THEN ov
  ELSE LET vg == Vesting1(ov, s, e, t)
           prod == DecMul(DecFromInt(u), DecFromInt(ov))
           q == IF rounds THEN DecQuo(prod, DecFromInt(vg)) ELSE DecQuoTrunc(prod, DecFromInt(vg))
           ov1 == ov - TruncInt(q)
       IN IF vg - Vesting1(ov1, s, e, t) < u THEN ov1 - 1 ELSE ov1
\* what a split of u really unlocks
\* @type: (Int, Int, Int, Int, Int, Bool) => Int;
Unlocked(ov, s, e, t, u, rounds) == Vesting1(ov, s, e, t) - Vesting1(SplitOVq(ov, s, e, t, u, rounds), s, e, t)

\* keeper.newVestingAccount: the part of amt that is subject to vesting for a free fraction `free` (a decimal)
\* @type: (Int, Int) => Int;
NewOV(amt, free) == TruncInt(DecFromInt(amt) - DecMul(DecFromInt(amt), free))
=============================================================================
