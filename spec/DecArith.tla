---------------------------- MODULE DecArith ----------------------------
(* sdk.Dec (cosmos-sdk v0.46.10 types/decimal.go) as an integer scaled by P.
   P = 10^18 in the code.  The same text is evaluated by TLC (small P, 32-bit
   integers: keep a*P*P < 2^31) and by Apalache (P = 10^18, unbounded).
   A Dec value d stands for the rational d / P. *)
EXTENDS Integers
CONSTANT
  \* @type: Int;
  P

\* @type: (Int) => Int;
Abs(a) == IF a < 0 THEN -a ELSE a
\* @type: (Int, Int) => Int;
Max(a, b) == IF a >= b THEN a ELSE b
\* @type: (Int, Int) => Int;
Min(a, b) == IF a <= b THEN a ELSE b
\* Go big.Int.Quo and Go integer division: truncation toward zero
\* @type: (Int, Int) => Int;
TQuo(a, b) == IF (a < 0) = (b < 0) THEN Abs(a) \div Abs(b) ELSE -(Abs(a) \div Abs(b))
\* chopPrecisionAndRound: d / P, round half to even (banker's rounding)
\* @type: (Int) => Int;
ChopRound(d) == LET ad == Abs(d)
                    q == ad \div P
                    r == ad % P
                    res == IF 2*r < P THEN q ELSE IF 2*r > P THEN q + 1 ELSE IF q % 2 = 0 THEN q ELSE q + 1
                IN IF d < 0 THEN -res ELSE res
\* chopPrecisionAndTruncate
\* @type: (Int) => Int;
ChopTrunc(d) == TQuo(d, P)
\* sdk.NewDecFromInt
\* @type: (Int) => Int;
DecFromInt(n) == n * P
\* Dec.Mul (rounds half to even)
\* @type: (Int, Int) => Int;
DecMul(a, b) == ChopRound(a * b)
\* Dec.MulTruncate
\* @type: (Int, Int) => Int;
DecMulTrunc(a, b) == ChopTrunc(a * b)
\* Dec.Quo: multiply by precision twice, big-int quotient, then round half to even
\* @type: (Int, Int) => Int;
DecQuo(a, b) == ChopRound(TQuo(a * P * P, b))
\* Dec.QuoTruncate
\* @type: (Int, Int) => Int;
DecQuoTrunc(a, b) == ChopTrunc(TQuo(a * P * P, b))
\* Dec.MulInt / MulInt64 (exact)
\* @type: (Int, Int) => Int;
DecMulInt(a, n) == a * n
\* Dec.QuoInt / QuoInt64 (big-int quotient, truncation)
\* @type: (Int, Int) => Int;
DecQuoInt(a, n) == TQuo(a, n)
\* Dec.TruncateInt / RoundInt / TruncateDec / fractional part
\* @type: (Int) => Int;
TruncInt(a) == TQuo(a, P)
\* @type: (Int) => Int;
RoundInt(a) == ChopRound(a)
\* @type: (Int) => Int;
TruncDec(a) == TruncInt(a) * P
\* @type: (Int) => Int;
Frac(a) == a - TruncDec(a)

(* exactness predicates: TRUE iff the operation loses no digits at this P, in
   which case the result is the same rational for every P that can represent
   the operands (10^18 included).  Used by the S->I configurations. *)
\* @type: (Int, Int) => Bool;
MulExact(a, b) == (a * b) % P = 0
\* @type: (Int, Int) => Bool;
QuoIntExact(a, n) == n # 0 /\ a % n = 0
\* @type: (Int, Int) => Bool;
QuoExact(a, b) == b # 0 /\ (a * P) % b = 0
=============================================================================
