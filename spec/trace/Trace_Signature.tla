--------------------------- MODULE Trace_Signature ---------------------------
(* Trace validation (implementation -> specification) for x/cfesignature: long random histories
   (20-40 steps; the model checker enumerates 3 messages) of publish / store / create-account
   messages and verify queries on the real handlers, recorded by harness/signature/trace.go with
   more addresses, reference ids, links and near-collision keys than the model-checked instance.
   Every logged step must be the action of Signature.tla with the logged verdict and post-state;
   VerifySound, WriteOnce and NoOverwrite are evaluated on every step of every real execution. *)
EXTENDS MBT_Signature

TraceLog == ndJsonDeserialize("trace.ndjson")
VARIABLE l
tvars == <<vars, l>>
CONSTANT DiagLine

IsEv(e) == l <= Len(TraceLog) /\ TraceLog[l].ev = e
TraceInit == Init /\ l = 1

ToRec(j) == [present |-> TRUE, signer |-> j.signer, over |-> <<j.over[1], j.over[2], j.over[3]>>, alg |-> j.alg, cert |-> j.cert, wellformed |-> j.wellformed]
\* logged post-state: links of the reference ids, stored signatures as "alg|cert", kind of every account
M_links(p) == \A r \in Refs : links'[r] = (IF r \in DOMAIN p.links THEN p.links[r] ELSE None)
M_sigs(p) == \A a \in Addrs, r \in Refs :
               LET k == a \o "/" \o r IN
               IF k \in DOMAIN p.sigs THEN sigs'[<<a, r>>].present /\ p.sigs[k] = sigs'[<<a, r>>].alg \o "|" \o sigs'[<<a, r>>].cert
               ELSE ~sigs'[<<a, r>>].present
M_accts(p) == \A a \in Addrs : accts'[a].k = p.accts[a]
Matches(p) == M_links(p) /\ M_sigs(p) /\ M_accts(p)
Diag(p, okSame) == PrintT(ToJson([diag |-> [ok |-> okSame, links |-> M_links(p), sigs |-> M_sigs(p), accts |-> M_accts(p)]]))
Check(p, okSame) == IF l = DiagLine THEN Diag(p, okSame) ELSE (okSame /\ Matches(p))

TrReset ==
  /\ IsEv("reset")
  /\ links' = [r \in LinkKeys |-> None] /\ sigs' = [x \in Addrs \X Refs |-> NoSig]
  /\ accts' = [a \in Addrs |-> IF a \in Existing THEN [k |-> "orig", pk |-> ""] ELSE NoAcc]
  /\ msgs' = 0 /\ act' = [name |-> "init"]
  /\ l' = l + 1
TrConfigure == IsEv("configure") /\ Setup /\ l' = l + 1
TrPublish == IsEv("publish") /\ LET e == TraceLog[l] IN Publish(e.r, e.l) /\ Check(e.post, act'.ok = e.ok) /\ l' = l + 1
TrStore == IsEv("store") /\ LET e == TraceLog[l] IN Store(e.a, e.r, ToRec(e.rec), e.json) /\ Check(e.post, act'.ok = e.ok) /\ l' = l + 1
TrCreate == IsEv("createaccount") /\ LET e == TraceLog[l] IN CreateAccount(e.a, e.pk) /\ Check(e.post, act'.ok = e.ok) /\ l' = l + 1
\* the query: verdict and echoed fields as logged
TrVerify ==
  /\ IsEv("verify")
  /\ LET e == TraceLog[l]
         res == VerifyResult(e.a, e.r) IN
       /\ act' = [name |-> "verify", a |-> e.a, r |-> e.r, res |-> res]
       /\ UNCHANGED <<links, sigs, accts, msgs>>
       /\ IF l = DiagLine THEN PrintT(ToJson([diag |-> [ok |-> (res.valid = e.valid), links |-> TRUE, sigs |-> TRUE, accts |-> TRUE]]))
          ELSE /\ res.valid = e.valid
               /\ res.valid => (res.alg = e.alg /\ res.cert = e.cert /\ e.echo)
  /\ l' = l + 1

TraceNext == TrReset \/ TrConfigure \/ TrPublish \/ TrStore \/ TrCreate \/ TrVerify
TraceSpec == TraceInit /\ [][TraceNext]_tvars

\* the action properties of Signature.tla, not judging the reset step of the trace
TrWriteOnce == [][(act'.name # "init") => (\A r \in LinkKeys : links[r] # None => links'[r] = links[r])]_tvars
TrNoOverwrite == [][(act'.name # "init") => (\A a \in Addrs : accts[a] # NoAcc => accts'[a] = accts[a])]_tvars

Mark == TLCSet(1, IF TLCGet(1) < l THEN l ELSE TLCGet(1))
TraceConstraint == Mark
TraceAccepted == TLCGet(1) = Len(TraceLog) + 1
ASSUME TLCSet(1, 0)
=============================================================================
