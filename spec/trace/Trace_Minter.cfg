SPECIFICATION TraceSpec
CONSTANTS
  P = 4096
  Configs = {}
  UpdateTries = {}
  RejectProbeTimes = {0,1,2,3,4,5,6,7,8,9,10,11,12,13,14,15,16,17,18,19,20,21,22,23,24,25,26,27,28,29,30,31,32,33,34,35,36,37,38,39,40}
  Tmax = 40
  YearTicks = 8
  Supply0 = 1000
  MaxUpdates = 1000
  Quirks = {}
INVARIANTS TypeOK ScheduleConformance LinearExact CarryOK NonNegBlock NeverHalts CurrentPeriodExists StoredParamsValid
CONSTRAINT TraceConstraint
POSTCONDITION TraceAccepted
CHECK_DEADLOCK FALSE
