---------------------------- MODULE Trace_Vesting ----------------------------
(* Trace validation (implementation -> specification) for x/cfevesting: long random message
   histories (10-20 messages: several pools per owner, chains of sends, splits of splits, moves,
   delegations, time steps) recorded from the real message router by harness/vesting/trace.go,
   beyond the <= 3 messages per behaviour that the model checker enumerates.  Every logged
   message must be the corresponding action of Vesting.tla with the logged accept / reject
   verdict and the logged post-state; every invariant and action property of the specification
   is evaluated on every step of every real execution. *)
EXTENDS MC_Vesting, Json, TLCExt

TraceLog == ndJsonDeserialize("trace.ndjson")
VARIABLE l
tvars == <<vars, l>>

IsEv(e) == l <= Len(TraceLog) /\ TraceLog[l].ev = e
TraceInit == Init /\ l = 1

SetupById(i) == CHOOSE s \in Setups : s.id = i
CoinsOf(j) == [d \in Denoms |-> IF d \in DOMAIN j THEN j[d] ELSE 0]
Lit(n) == <<"lit", n>>
SetOf(seq) == { seq[i] : i \in DOMAIN seq }

\* the logged post-state (only non-default entries are logged), one operator per component
M_modBal(p) == modBal' = p.modBal
M_bal(p) == \A a \in Addrs : bal'[a] = (IF a \in DOMAIN p.bal THEN CoinsOf(p.bal[a]) ELSE ZeroC)
M_locked(p) == \A a \in Addrs : LockedC(acct'[a], now') = (IF a \in DOMAIN p.locked THEN CoinsOf(p.locked[a]) ELSE ZeroC)
M_acct(p) ==
  \A a \in Addrs :
       IF a \in DOMAIN p.acct
         THEN /\ acct'[a].kind = p.acct[a].kind
              /\ (acct'[a].kind \in {"cv", "delayed", "permlocked"} => /\ acct'[a].ov = CoinsOf(p.acct[a].ov) /\ acct'[a].start = p.acct[a].start /\ acct'[a].end = p.acct[a].end
                                           /\ acct'[a].dv = p.acct[a].dv /\ acct'[a].df = p.acct[a].df)
         ELSE acct'[a].kind = "none"
M_pools(p) ==
  \A o \in Addrs :
       IF o \in DOMAIN p.pools
         THEN /\ Len(pools'[o]) = Len(p.pools[o])
              /\ \A i \in DOMAIN pools'[o] : /\ pools'[o][i].name = p.pools[o][i].name /\ pools'[o][i].init = p.pools[o][i].init
                                             /\ pools'[o][i].sent = p.pools[o][i].sent /\ pools'[o][i].withdrawn = p.pools[o][i].withdrawn
                                             /\ pools'[o][i].lockEnd = p.pools[o][i].lockEnd /\ pools'[o][i].genesis = p.pools[o][i].genesis
         ELSE pools'[o] = <<>>
M_traces(p) ==
  /\ \A a \in Addrs : traces'[a].has = (a \in DOMAIN p.traces)
  /\ \A a \in DOMAIN p.traces : /\ traces'[a].genesis = p.traces[a].genesis /\ traces'[a].fromPool = p.traces[a].fromPool /\ traces'[a].fromAcc = p.traces[a].fromAcc
M_summary(p) ==
  /\ Summary(FALSE)' = [all |-> p.summary.all, pools |-> p.summary.pools, accounts |-> p.summary.accounts, delegated |-> p.summary.delegated]
  /\ Summary(TRUE)' = [all |-> p.gsummary.all, pools |-> p.gsummary.pools, accounts |-> p.gsummary.accounts, delegated |-> p.gsummary.delegated]
\* the typed withdrawal events of the message, in order: pool name, amount, denomination
EventsMatch(me, re) == /\ Len(me) = Len(re)
                       /\ \A k \in DOMAIN me : me[k].pool = re[k].pool /\ me[k].amount = re[k].amount /\ re[k].denom = vdenom
M_vdenom(p) == vdenom' = p.vdenom
Matches(p) == M_vdenom(p) /\ M_modBal(p) /\ M_bal(p) /\ M_locked(p) /\ M_acct(p) /\ M_pools(p) /\ M_traces(p) /\ M_summary(p)
\* diagnosis of a rejected line (second run with DiagLine set to it): which components of the logged event the specification does not reproduce
CONSTANT DiagLine
Diag(p, okSame) == PrintT(ToJson([diag |-> [ok |-> okSame, vdenom |-> M_vdenom(p), events |-> (IF TraceLog[l].ev = "msg" /\ TraceLog[l].ok /\ act'.ok /\ TraceLog[l].m \in {"withdraw", "send"} THEN EventsMatch(act'.out.events, TraceLog[l].events) ELSE TRUE), modBal |-> M_modBal(p), bal |-> M_bal(p), locked |-> M_locked(p), acct |-> M_acct(p),
                                             pools |-> M_pools(p), traces |-> M_traces(p), summary |-> M_summary(p)]]))

TrReset ==
  /\ IsEv("reset")
  /\ now' = 0 /\ bal' = [a \in Addrs |-> ZeroC] /\ modBal' = 0 /\ pools' = [a \in Addrs |-> <<>>]
  /\ acct' = [a \in Addrs |-> NoAcct] /\ traces' = [a \in Addrs |-> NoTrace] /\ vdenom' = VDenom /\ msgs' = 0
  /\ act' = [name |-> "init"]
  /\ l' = l + 1

TrConfigure == IsEv("configure") /\ Configure(SetupById(TraceLog[l].setup)) /\ l' = l + 1

TrAdvance == IsEv("advance") /\ Advance(TraceLog[l].d) /\ l' = l + 1

TrDelegate == IsEv("delegate") /\ Delegate(TraceLog[l].a, Lit(TraceLog[l].amt)) /\ (IF l = DiagLine THEN Diag(TraceLog[l].post, TRUE) ELSE Matches(TraceLog[l].post)) /\ l' = l + 1

TrUpdateDenom ==
  /\ IsEv("updatedenom")
  /\ LET e == TraceLog[l] IN
       /\ UpdateDenom(e.auth, e.d)
       /\ IF l = DiagLine THEN Diag(e.post, act'.ok = e.ok) ELSE (act'.ok = e.ok /\ Matches(e.post))
  /\ l' = l + 1

TrMsg ==
  /\ IsEv("msg")
  /\ LET e == TraceLog[l] IN
       /\ CASE e.m = "createpool" -> Apply(DoCreatePool(e.o, e.n, e.amt, e.dur, e.vt), [name |-> "createpool", x |-> [m |-> "createpool", o |-> e.o, n |-> e.n], amt |-> e.amt])
            [] e.m = "withdraw" -> Apply(DoWithdraw(e.o), [name |-> "withdraw", x |-> [m |-> "withdraw", o |-> e.o]])
            [] e.m = "send" -> Apply(DoSend(e.o, e.to, e.n, e.amt, e.restart), [name |-> "send", x |-> [m |-> "send", o |-> e.o, to |-> e.to, n |-> e.n, restart |-> e.restart], amt |-> e.amt])
            [] e.m = "createacc" -> Apply(DoCreateAcc(e.from, e.to, CoinsOf(e.c), SetOf(e.ds), e.s, e.e),
                                          [name |-> "createacc", x |-> [m |-> "createacc", from |-> e.from, to |-> e.to], c |-> CoinsOf(e.c), s |-> e.s, e |-> e.e])
            [] e.m = "split" -> Apply(DoSplit(e.from, e.to, CoinsOf(e.c), SetOf(e.ds)), [name |-> "split", x |-> [m |-> "split", from |-> e.from, to |-> e.to, ds |-> SetOf(e.ds)], c |-> CoinsOf(e.c)])
            [] e.m = "move" -> Apply(DoMove(e.from, e.to), [name |-> "move", x |-> [m |-> "move", from |-> e.from, to |-> e.to]])
            [] e.m = "movedenoms" -> Apply(DoMoveDenoms(e.from, e.to, SetOf(e.ds)), [name |-> "movedenoms", x |-> [m |-> "movedenoms", from |-> e.from, to |-> e.to, ds |-> SetOf(e.ds)]])
            [] OTHER -> FALSE
       /\ IF l = DiagLine THEN Diag(e.post, act'.ok = e.ok)
          ELSE /\ act'.ok = e.ok
               /\ Matches(e.post)
               /\ (e.m = "withdraw" /\ e.ok) => act'.out.paid = e.paid
               /\ (e.m \in {"withdraw", "send"} /\ e.ok) => EventsMatch(act'.out.events, e.events)
  /\ l' = l + 1

TraceNext == TrReset \/ TrConfigure \/ TrAdvance \/ TrDelegate \/ TrUpdateDenom \/ TrMsg
TraceSpec == TraceInit /\ [][TraceNext]_tvars

Mark == TLCSet(1, IF TLCGet(1) < l THEN l ELSE TLCGet(1))
TraceConstraint == Mark
TraceAccepted == TLCGet(1) = Len(TraceLog) + 1
ASSUME TLCSet(1, 0)
=============================================================================
