---------------------------- MODULE Trace_Minter ----------------------------
(* Trace validation (implementation -> specification) for x/cfeminter.

   trace.ndjson holds executions recorded from the real keeper by a seeded
   random driver (harness/minter/trace.go): configurations with up to four
   periods, arbitrary block times, parameter updates - wider than the families the
   model checker enumerates.  Every logged event must be explained by the
   corresponding action of Minter.tla *and* produce the logged post-state; all
   invariants of the specification are evaluated by TLC in every state of every
   real execution.  Traces are concatenated ("reset" events). *)
EXTENDS Minter, Json, TLCExt

TraceLog == ndJsonDeserialize("trace.ndjson")
VARIABLE l            \* next line of the trace to consume
tvars == <<vars, l>>

ToPeriod(j) == [id |-> j.id, kind |-> j.kind, end |-> j.end, amount |-> j.amount, step |-> j.step, mult |-> j.mult]
ToCfg(j) == [denom |-> j.denom, start |-> j.start, periods |-> [i \in 1..Len(j.periods) |-> ToPeriod(j.periods[i])]]

IsEv(e) == l <= Len(TraceLog) /\ TraceLog[l].ev = e

TraceInit == Init /\ l = 1

\* a new execution starts: the previous one is abandoned in whatever state it is
TrReset ==
  /\ IsEv("reset")
  /\ cfg' = NoCfg /\ ms' = MS0 /\ hist' = <<>> /\ now' = 0 /\ total' = 0
  /\ sup' = [d \in ValidDenoms |-> Supply0] /\ halted' = FALSE /\ nupd' = 0 /\ exact' = TRUE
  /\ act' = [name |-> "init"]
  /\ l' = l + 1

\* once the model run is no longer decimal-exact at this P the rest of that execution cannot be predicted
\* digit by digit: it is skipped (and counted), never accepted by a weaker comparison
TrSkip ==
  /\ ~exact /\ l <= Len(TraceLog) /\ TraceLog[l].ev # "reset"
  /\ l' = l + 1 /\ TLCSet(2, TLCGet(2) + 1)
  /\ UNCHANGED vars

TrConfigure ==
  /\ IsEv("configure")
  /\ Configure(ToCfg(TraceLog[l].cfg))
  /\ l' = l + 1

\* the logged block must be a Block step of the specification leading exactly to the logged state
TrBlock ==
  /\ IsEv("block") /\ exact
  /\ LET e == TraceLog[l] IN
       /\ Block(e.t)
       /\ act'.minted = e.minted /\ act'.panic = e.panic
       /\ ms'.seq = e.seq /\ ms'.minted = e.amountMinted /\ ms'.last = e.last
       /\ Len(hist') = e.nhist /\ total' = e.total
       /\ (exact' => (ms'.remPrev = e.remPrev /\ ms'.remToMint = e.remToMint))
  /\ l' = l + 1

TrUpdate ==
  /\ IsEv("update") /\ exact
  /\ LET e == TraceLog[l] IN
       /\ Update(e.kind, e.auth, ToCfg(e.payload))
       /\ act'.ok = e.ok
  /\ l' = l + 1

TraceNext == TrReset \/ TrConfigure \/ TrBlock \/ TrUpdate \/ TrSkip
TraceSpec == TraceInit /\ [][TraceNext]_tvars

\* high-water mark of consumed lines: the trace is accepted iff every line was consumed
Mark == TLCSet(1, IF TLCGet(1) < l THEN l ELSE TLCGet(1))
TraceConstraint == Mark
TraceAccepted == PrintT(ToJson([skipped |-> TLCGet(2), lines |-> Len(TraceLog)])) /\ TLCGet(1) = Len(TraceLog) + 1
ASSUME TLCSet(1, 0) /\ TLCSet(2, 0)
Skipped == TLCGet(2)
=============================================================================
