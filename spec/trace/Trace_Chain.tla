----------------------------- MODULE Trace_Chain -----------------------------
(* Trace validation (implementation -> specification) for the whole application.

   trace.ndjson holds executions of the real application recorded by harness/chain/trace.go:
   10-40 blocks each (the model checker enumerates 2), full-app EndBlocker / BeginBlocker, fees,
   cfevesting / cfesignature messages in between, governance updates of the minter and the
   distributor, export / import into a fresh application - on the configurations TrMinterCfgSeq x
   TrDistCfgSeq of MBT_Chain.tla.  Every logged step must be the corresponding action of Chain.tla
   (i.e. of Minter.tla and Distributor.tla composed) and lead to the logged state: minter state,
   every module / base account balance, every leftover, the supply.  SupplyLedger, BooksMatch,
   NeverHalts, CurrentPeriodExists and the supply action properties are evaluated on every step. *)
EXTENDS MBT_Chain

TraceLog == ndJsonDeserialize("trace.ndjson")
VARIABLE l
tvars == <<vars, l>>
CONSTANT DiagLine

IsEv(e) == l <= Len(TraceLog) /\ TraceLog[l].ev = e
TraceInit == Init /\ l = 1
Exact == mexact /\ dexact

CoinsOfJ(j) == [d \in Denoms |-> IF d \in DOMAIN j THEN j[d] ELSE 0]
M_minter(p) == ms'.seq = p.seq /\ ms'.minted = p.minted /\ Len(hist') = p.nhist
M_supply(p) == \A d \in Denoms : supply'[d] = p.supply[d]
M_bal(p) == \A k \in DOMAIN bal' : bal'[k] = (IF k \in DOMAIN p.bal THEN CoinsOfJ(p.bal[k]) ELSE ZeroC)
\* leftovers are logged as numerators over P; remx = every real leftover is a multiple of 1/P
M_rem(p) == p.remx /\ \A k \in DOMAIN rem' : rem'[k] = (IF k \in DOMAIN p.rem THEN CoinsOfJ(p.rem[k]) ELSE ZeroC)
Matches(p) == M_minter(p) /\ M_supply(p) /\ M_bal(p) /\ M_rem(p)
Diag(p, okSame) == PrintT(ToJson([diag |-> [ok |-> okSame, exact |-> (mexact' /\ dexact'), minter |-> M_minter(p), supply |-> M_supply(p), bal |-> M_bal(p), rem |-> M_rem(p)]]))
\* the state is compared as long as the model run is decimal-exact at this P
Check(p, okSame) == IF l = DiagLine THEN Diag(p, okSame) ELSE (okSame /\ ((mexact' /\ dexact') => Matches(p)))

TrReset ==
  /\ IsEv("reset")
  /\ mcfg' = M!NoCfg /\ ms' = M!MS0 /\ hist' = <<>> /\ now' = 0 /\ total' = 0 /\ sup' = [d \in M!ValidDenoms |-> Supply0] /\ mexact' = TRUE
  /\ dcfg' = D!NoCfg /\ bal' = [k \in D!BankKeys |-> ZeroC] /\ rem' = [k \in D!Universe |-> ZeroC]
  /\ entitled' = [k \in D!Universe |-> ZeroC] /\ paid' = [k \in D!Universe |-> ZeroC] /\ requeued' = [k \in D!Universe |-> ZeroC] /\ dexact' = TRUE
  /\ supply' = TLCEval([d \in Denoms |-> Supply0]) /\ minted' = ZeroC /\ burned' = ZeroC
  /\ blocks' = 0 /\ nupd' = 0 /\ pcScript' = 1 /\ halted' = FALSE
  /\ act' = [name |-> "init"] /\ stage' = 0
  /\ l' = l + 1

\* once the model run is no longer decimal-exact the rest of that execution cannot be predicted digit by digit: skipped and counted
TrSkip ==
  /\ ~Exact /\ l <= Len(TraceLog) /\ TraceLog[l].ev # "reset"
  /\ l' = l + 1 /\ TLCSet(2, TLCGet(2) + 1)
  /\ UNCHANGED vars

TrConfigure == IsEv("configure") /\ Configure(TrMinterCfgSeq[TraceLog[l].mi], TrDistCfgSeq[TraceLog[l].di]) /\ l' = l + 1

TrBlock ==
  /\ IsEv("block") /\ Exact
  /\ LET e == TraceLog[l] IN
       /\ BeginBlock(e.t)
       /\ Check(e.post, halted' = e.panic /\ ((mexact' /\ dexact' /\ ~e.panic) => act'.minted = e.mintEv))
  /\ l' = l + 1

TrFee == IsEv("fee") /\ Exact /\ Fee(TraceLog[l].v) /\ Check(TraceLog[l].post, TRUE) /\ l' = l + 1

TrOpaque == IsEv("opaque") /\ Exact /\ Opaque /\ Check(TraceLog[l].post, TRUE) /\ l' = l + 1

TrUpdate ==
  /\ IsEv("update") /\ Exact
  /\ LET e == TraceLog[l] IN
       /\ IF e.kind = "minter" THEN UpdateMinter(TrMinterUpdSeq[e.i]) ELSE UpdateDistributor(TrDistUpdSeq[e.i])
       /\ Check(e.post, act'.ok = e.ok)
  /\ l' = l + 1

TrFailedTx ==
  /\ IsEv("failedtx") /\ Exact
  /\ LET e == TraceLog[l] IN
       /\ FailedTx(e.kind, IF e.kind = "minter" THEN TrMinterUpdSeq[e.i] ELSE TrDistUpdSeq[e.i])
       /\ Check(e.post, TRUE)
  /\ l' = l + 1

TrExport == IsEv("export") /\ Exact /\ ExportImport /\ Check(TraceLog[l].post, TRUE) /\ l' = l + 1

TraceNext == TrReset \/ TrConfigure \/ TrBlock \/ TrFee \/ TrOpaque \/ TrUpdate \/ TrFailedTx \/ TrExport \/ TrSkip
TraceSpec == TraceInit /\ [][TraceNext]_tvars

Mark == TLCSet(1, IF TLCGet(1) < l THEN l ELSE TLCGet(1))
TraceConstraint == Mark
TraceAccepted == PrintT(ToJson([skipped |-> TLCGet(2), lines |-> Len(TraceLog)])) /\ TLCGet(1) = Len(TraceLog) + 1
ASSUME TLCSet(1, 0) /\ TLCSet(2, 0)
TrScript == [i \in 1..5000 |-> [m |-> "any"]]
=============================================================================
