SPECIFICATION TraceSpec
CONSTANTS
  P = 100
  Addrs <- TraceAddrs
  AddrSeq <- TraceAddrSeq
  Setups <- TraceSetups
  Denoms = {"uc4e", "stake"}
  VDenom = "uc4e"
  VTypes <- MCVTypes
  Tries = {}
  TrySet = "pools"
  Tmax = 1000
  MaxMsgs = 100000
  Blocked = {"mod"}
  Quirks = {}
  DiagLine = 0
INVARIANTS C05_Backed C05_Bounds NoNegBal C17_TraceOnlyForVesting
PROPERTIES Rejected Conserved C06_Lock C06_WithdrawnOnlyAfter C06_WithdrawExact C18_WithdrawEvents C07_Exact C08_Send C08_Create C09_NoOverwrite C17_Lineage C13_Denom
CONSTRAINT TraceConstraint
POSTCONDITION TraceAccepted
CHECK_DEADLOCK FALSE
