SPECIFICATION TraceSpec
CONSTANTS
  Addrs <- TrAddrs
  Refs <- TrRefs
  VarKeys <- TrVarKeys
  Links <- TrLinks
  Keys <- TrKeys
  KeyType <- TrKeyType
  Tries = {}
  MaxMsgs = 1000000
  Existing = {"a2"}
  Quirks = {}
  DiagLine = 0
INVARIANTS VerifySound
PROPERTIES TrWriteOnce TrNoOverwrite
CONSTRAINT TraceConstraint
POSTCONDITION TraceAccepted
CHECK_DEADLOCK FALSE
