-------------------------- MODULE Trace_Distributor --------------------------
(* Trace validation (implementation -> specification) for x/cfedistributor: executions of the
   real BeginBlocker on randomly generated valid configurations (up to four sub-distributors,
   two denominations, arbitrary source / destination graphs over a fixed pool of accounts) with
   random deposits, recorded by harness/distributor/trace.go.  Every logged block must be a
   Block({}) step of Distributor.tla that produces exactly the logged balances and leftovers;
   all invariants of the specification are evaluated on every state of every real execution. *)
EXTENDS Distributor, Json, TLCExt

TraceLog == ndJsonDeserialize("trace.ndjson")
VARIABLE l
tvars == <<vars, l>>

Pool == { [t |-> "MAIN", id |-> ""] } \cup { [t |-> "MOD", id |-> i] : i \in {"m1", "m2", "m3"} } \cup { [t |-> "BASE", id |-> i] : i \in {"b1", "b2"} }
        \cup { [t |-> "INT", id |-> i] : i \in {"i1", "i2", "m1"} }

ToAcc(j) == [t |-> j.t, id |-> j.id]
ToShare(j) == [name |-> j.name, share |-> j.share, dest |-> ToAcc(j.dest)]
ToSD(j) == [name |-> j.name, sources |-> [i \in 1..Len(j.sources) |-> ToAcc(j.sources[i])], primary |-> ToAcc(j.primary),
            shares |-> [i \in 1..Len(j.shares) |-> ToShare(j.shares[i])], burn |-> j.burn]
ToCfg(j) == [i \in 1..Len(j) |-> ToSD(j[i])]
\* logged coin maps list only non-zero entries
CoinOf(j, k) == [d \in Denoms |-> IF k \in DOMAIN j THEN (IF d \in DOMAIN j[k] THEN j[k][d] ELSE 0) ELSE 0]

IsEv(e) == l <= Len(TraceLog) /\ TraceLog[l].ev = e
TraceInit == Init /\ l = 1

TrReset ==
  /\ IsEv("reset")
  /\ cfg' = NoCfg /\ bal' = [k \in BankKeys |-> ZeroC] /\ rem' = [k \in Universe |-> ZeroC]
  /\ entitled' = [k \in Universe |-> ZeroC] /\ paid' = [k \in Universe |-> ZeroC] /\ requeued' = [k \in Universe |-> ZeroC]
  /\ deposited' = ZeroC /\ blocks' = 0 /\ phase' = "dep" /\ nupd' = 0 /\ halted' = FALSE /\ exact' = TRUE
  /\ act' = [name |-> "init"]
  /\ l' = l + 1

TrSkip ==
  /\ ~exact /\ l <= Len(TraceLog) /\ TraceLog[l].ev # "reset"
  /\ l' = l + 1 /\ TLCSet(2, TLCGet(2) + 1)
  /\ UNCHANGED vars

TrConfigure == IsEv("configure") /\ Configure(ToCfg(TraceLog[l].cfg)) /\ l' = l + 1

TrDeposit ==
  /\ IsEv("deposit") /\ exact
  /\ LET v == TraceLog[l].v IN Deposit([k \in DOMAIN v |-> [d \in Denoms |-> IF d \in DOMAIN v[k] THEN v[k][d] ELSE 0]])
  /\ l' = l + 1

TrBlock ==
  /\ IsEv("block") /\ exact
  /\ Block({})
  /\ LET e == TraceLog[l] IN
       exact' => /\ \A k \in BankKeys : bal'[k] = CoinOf(e.bal, k)
                 /\ \A k \in Universe : rem'[k] = CoinOf(e.rem, k)
  /\ l' = l + 1

TraceNext == TrReset \/ TrConfigure \/ TrDeposit \/ TrBlock \/ TrSkip
TraceSpec == TraceInit /\ [][TraceNext]_tvars

Mark == TLCSet(1, IF TLCGet(1) < l THEN l ELSE TLCGet(1))
TraceConstraint == Mark
TraceAccepted == PrintT(ToJson([skipped |-> TLCGet(2), lines |-> Len(TraceLog)])) /\ TLCGet(1) = Len(TraceLog) + 1
ASSUME TLCSet(1, 0) /\ TLCSet(2, 0)
=============================================================================
