SPECIFICATION TraceSpec
CONSTANTS
  P = 256
  MinterCfgs = {}
  DistCfgs = {}
  MinterUpdates = {}
  DistUpdates = {}
  FeeVecs = {}
  Script <- TrScript
  Tmax = 100000
  MaxBlocks = 100000
  MaxUpdates = 100000
  Supply0 = 1000
  Denoms = {"uc4e", "stake"}
  Accs <- MCAccs
  ModuleIds = {"m1", "m2", "fc"}
  BaseIds = {"b1"}
  YearTicks = 8
  DiagLine = 0
INVARIANTS SupplyLedger BooksMatch NeverHalts CurrentPeriodExists
PROPERTIES SupplyOnlyInBlocks SupplyDeltaIsMintMinusBurn
CONSTRAINT TraceConstraint
POSTCONDITION TraceAccepted
CHECK_DEADLOCK FALSE
