SPECIFICATION TraceSpec
CONSTANTS
  P = 64
  Configs = {}
  Accs <- Pool
  Denoms = {"uc4e", "stake"}
  DepositVecs = {}
  FaultSets = {}
  MaxBlocks = 1000
  UpdateTries = {}
  MaxUpdates = 0
  RejectProbeBlocks = {}
  ModuleIds = {"m1", "m2", "m3"}
  BaseIds = {"b1", "b2"}
  Quirks = {}
INVARIANTS NonNegative BooksMatch Conservation ShareExact PaidUp NeverHalts StoredParamsValid EventsAddUp
CONSTRAINT TraceConstraint
POSTCONDITION TraceAccepted
CHECK_DEADLOCK FALSE
