// Package chain binds spec/Chain.tla to the whole application: full-app BeginBlocker / EndBlocker,
// messages through the router, export / import through the module manager, real ABCI with Commit
// for replica comparison.
package chain

import (
	"crypto/sha256"
	"encoding/hex"
	"encoding/json"
	"fmt"
	"math/big"
	"math/rand"
	"sort"
	"strings"
	"time"

	c4eapp "github.com/chain4energy/c4e-chain/app"
	dtypes "github.com/chain4energy/c4e-chain/x/cfedistributor/types"
	mtypes "github.com/chain4energy/c4e-chain/x/cfeminter/types"
	skeeper "github.com/chain4energy/c4e-chain/x/cfesignature/keeper"
	stypes "github.com/chain4energy/c4e-chain/x/cfesignature/types"
	vtypes "github.com/chain4energy/c4e-chain/x/cfevesting/types"
	"github.com/cosmos/cosmos-sdk/simapp"
	"github.com/cosmos/cosmos-sdk/x/gov"
	govv1 "github.com/cosmos/cosmos-sdk/x/gov/types/v1"
	sdk "github.com/cosmos/cosmos-sdk/types"
	authtypes "github.com/cosmos/cosmos-sdk/x/auth/types"
	bankkeeper "github.com/cosmos/cosmos-sdk/x/bank/keeper"
	banktypes "github.com/cosmos/cosmos-sdk/x/bank/types"
	abci "github.com/tendermint/tendermint/abci/types"
	"github.com/tendermint/tendermint/libs/log"
	tmproto "github.com/tendermint/tendermint/proto/tendermint/types"

	"verif/harness/distributor"
	"verif/harness/env"
	"verif/harness/graph"
	"verif/harness/minter"
	"verif/harness/walk"
)

var one18 = big.NewInt(1000000000000000000)

type envKeyT struct{}

var envKey = envKeyT{}

type state struct {
	base   *env.Env
	meta   minter.Meta
	denoms []string
	ids    map[string]string
	rids   map[string]string
	users  map[string]env.User
}

func ids(users map[string]env.User) (map[string]string, map[string]string) {
	m := map[string]string{"m1": dtypes.GreenEnergyBoosterCollector, "m2": dtypes.GovernanceBoosterCollector, "fc": authtypes.FeeCollectorName,
		"b1": users["b1"].Bech32(), "i1": "internal_one"}
	r := map[string]string{}
	for k, v := range m {
		r[v] = k
	}
	return m, r
}

func vestingGenesis() *vtypes.GenesisState {
	g := vtypes.DefaultGenesis()
	g.Params.Denom = "uc4e"
	g.VestingTypes = []vtypes.GenesisVestingType{{Name: "v0", LockupPeriod: 0, LockupPeriodUnit: vtypes.Second, VestingPeriod: 100000000, VestingPeriodUnit: vtypes.Second, Free: sdk.ZeroDec()}}
	return g
}

func userList() []env.User {
	return []env.User{env.NewUser("payer"), env.NewUser("o1"), env.NewUser("b1")}
}

// newEnv builds a fresh application whose genesis carries the model configuration.
func newEnv(meta minter.Meta, mc graph.M, dc any) *env.Env {
	users := userList()
	um := map[string]env.User{}
	for _, u := range users {
		um[u.Name] = u
	}
	idm, _ := ids(um)
	mg := env.DefaultMinterGenesis()
	mg.Params = meta.BuildParams(mc)
	dg := &dtypes.GenesisState{Params: dtypes.Params{SubDistributors: distributor.BuildCfg(meta.P, idm, dc)}}
	return env.New(env.Options{Users: users, Minter: mg, Distributor: dg, Vesting: vestingGenesis(),
		Balances: map[string]sdk.Coins{"payer": sdk.NewCoins(sdk.NewCoin("uc4e", sdk.NewInt(100000)), sdk.NewCoin("stake", sdk.NewInt(100000))), "o1": sdk.NewCoins(sdk.NewCoin("uc4e", sdk.NewInt(1000)))}})
}

func curEnv(ctx sdk.Context, def *env.Env) *env.Env {
	if v := ctx.Value(envKey); v != nil {
		return v.(*env.Env)
	}
	return def
}

type obs struct {
	Seq, NHist int64
	Minted     string
	Bal        map[string]map[string]string
	Rem        map[string]map[string]*big.Rat
	Supply     map[string]sdk.Int
	Err        string
}

func (s *state) project(e *env.Env, ctx sdk.Context) obs {
	app := e.App
	o := obs{Bal: map[string]map[string]string{}, Rem: map[string]map[string]*big.Rat{}, Supply: map[string]sdk.Int{}}
	sr, err := app.CfeminterKeeper.State(sdk.WrapSDKContext(ctx), &mtypes.QueryStateRequest{})
	if err != nil {
		o.Err = err.Error()
		return o
	}
	o.Seq, o.NHist, o.Minted = int64(sr.MinterState.SequenceId), int64(len(sr.StateHistory)), sr.MinterState.AmountMinted.String()
	accs := map[string]sdk.AccAddress{"MAIN": authtypes.NewModuleAddress(dtypes.DistributorMainAccount), "BASE-b1": s.users["b1"].Addr}
	for _, m := range []string{"m1", "m2", "fc"} {
		accs["MOD-"+m] = authtypes.NewModuleAddress(s.ids[m])
	}
	for k, a := range accs {
		for _, d := range s.denoms {
			if amt := app.BankKeeper.GetBalance(ctx, a, d).Amount; !amt.IsZero() {
				if o.Bal[k] == nil {
					o.Bal[k] = map[string]string{}
				}
				o.Bal[k][d] = amt.String()
			}
		}
	}
	st, err := app.CfedistributorKeeper.States(sdk.WrapSDKContext(ctx), &dtypes.QueryStatesRequest{})
	if err != nil {
		o.Err = err.Error()
		return o
	}
	for i := range st.States {
		x := st.States[i]
		key := distributor.KeyOf(s.rids, x.Account, x.Burn)
		for _, c := range x.Remains {
			if c.Amount.IsZero() {
				continue
			}
			if o.Rem[key] == nil {
				o.Rem[key] = map[string]*big.Rat{}
			}
			o.Rem[key][c.Denom] = new(big.Rat).SetFrac(c.Amount.BigInt(), one18)
		}
	}
	for _, d := range s.denoms {
		o.Supply[d] = app.BankKeeper.GetSupply(ctx, d).Amount
	}
	return o
}

func header(ctx sdk.Context, t time.Time) tmproto.Header {
	h := ctx.BlockHeader()
	h.Height++
	h.Time = t
	return h
}

// opaque script messages
func (s *state) opaque(e *env.Env, ctx sdk.Context, m graph.M) (string, string) {
	o1, r1, r2 := s.users["o1"].Bech32(), env.NewUser("r1").Bech32(), env.NewUser("r2").Bech32()
	var msg sdk.Msg
	switch graph.Str(m["m"]) {
	case "createpool":
		msg = &vtypes.MsgCreateVestingPool{Owner: o1, Name: "p", Amount: sdk.NewInt(graph.Num(m["amt"])), Duration: time.Duration(100 * s.meta.TickNs), VestingType: "v0"}
	case "send":
		msg = &vtypes.MsgSendToVestingAccount{Owner: o1, ToAddress: r1, VestingPoolName: "p", Amount: sdk.NewInt(graph.Num(m["amt"])), RestartVesting: true}
	case "split":
		msg = &vtypes.MsgSplitVesting{FromAddress: r1, ToAddress: r2, Amount: sdk.NewCoins(sdk.NewCoin("uc4e", sdk.NewInt(graph.Num(m["amt"]))))}
	case "withdraw":
		msg = &vtypes.MsgWithdrawAllAvailable{Owner: o1}
	case "publish":
		srv := skeeper.NewMsgServerImpl(e.App.CfesignatureKeeper)
		cctx, write := ctx.CacheContext()
		var err error
		if p := env.Try(func() {
			_, err = srv.PublishReferencePayloadLink(sdk.WrapSDKContext(cctx), &stypes.MsgPublishReferencePayloadLink{Creator: o1, Key: strings.Repeat("ab", 32), Value: "link"})
		}); p != "" {
			return "panic", p
		}
		if err != nil {
			return "rejected", err.Error()
		}
		write()
		return "ok", ""
	}
	outcome, detail, _, _ := e.Deliver(ctx, msg)
	return outcome, detail
}

// updateMsg builds the governance update of the minter or the distributor with a model payload.
func (s *state) updateMsg(kind string, payload any) sdk.Msg {
	if kind == "minter" {
		p := s.meta.BuildParams(graph.Rec(payload))
		return &mtypes.MsgUpdateParams{Authority: env.Gov(), MintDenom: p.MintDenom, StartTime: p.StartTime, Minters: p.Minters}
	}
	return &dtypes.MsgUpdateParams{Authority: env.Gov(), SubDistributors: distributor.BuildCfg(s.meta.P, s.ids, payload)}
}

// failingMsg passes ValidateBasic and fails in its handler (the payer does not own that much).
func (s *state) failingMsg() sdk.Msg {
	return banktypes.NewMsgSend(s.users["payer"].Addr, s.users["o1"].Addr, sdk.NewCoins(sdk.NewCoin("uc4e", sdk.NewInt(1000000000000))))
}

// govExecute runs messages the way they reach the chain in production: a governance proposal is submitted, deposited,
// voted by the bonded delegator, and executed by x/gov's EndBlocker at the end of the voting period (all messages on one
// branch of the state, written only if every one succeeds).  Returns "ok" (passed and executed), "rejected" (refused at
// submission or failed on execution) or "panic".
func (s *state) govExecute(e *env.Env, ctx sdk.Context, msgs ...sdk.Msg) (outcome, detail string) {
	gk := e.App.GovKeeper
	if p := env.Try(func() {
		dp := gk.GetDepositParams(ctx)
		dp.MinDeposit = sdk.NewCoins(sdk.NewCoin("stake", sdk.OneInt()))
		gk.SetDepositParams(ctx, dp)
		vp := gk.GetVotingParams(ctx)
		d := time.Second
		vp.VotingPeriod = &d
		gk.SetVotingParams(ctx, vp)
		prop, err := gk.SubmitProposal(ctx, msgs, "")
		if err != nil {
			outcome, detail = "rejected", "submit: "+err.Error()
			return
		}
		if _, err := gk.AddDeposit(ctx, prop.Id, s.users["payer"].Addr, dp.MinDeposit); err != nil {
			panic("harness: deposit failed: " + err.Error())
		}
		if err := gk.AddVote(ctx, prop.Id, e.Users["delegator"].Addr, govv1.NewNonSplitVoteOption(govv1.OptionYes), ""); err != nil {
			panic("harness: vote failed: " + err.Error())
		}
		gov.EndBlocker(ctx.WithBlockTime(ctx.BlockTime().Add(2*time.Second)).WithEventManager(sdk.NewEventManager()), gk)
		done, _ := gk.GetProposal(ctx, prop.Id)
		switch done.Status {
		case govv1.StatusPassed:
			outcome = "ok"
		case govv1.StatusFailed:
			outcome, detail = "rejected", "handler of a proposal message failed on execution"
		default:
			panic("harness: proposal ended as " + done.Status.String())
		}
	}); p != "" {
		return "panic", p
	}
	return outcome, detail
}

// failingGovMsg is signed by the governance account (so that a proposal may carry it) and fails in its handler.
func (s *state) failingGovMsg() sdk.Msg {
	from, _ := sdk.AccAddressFromBech32(env.Gov())
	return banktypes.NewMsgSend(from, s.users["o1"].Addr, sdk.NewCoins(sdk.NewCoin("uc4e", sdk.NewInt(1000000000000))))
}

func (s *state) exportImport(e *env.Env, ctx sdk.Context) (*env.Env, sdk.Context, string, string) {
	app := e.App
	var gen map[string]json.RawMessage
	if p := env.Try(func() { gen = app.VerifModuleManager().ExportGenesis(ctx, app.AppCodec()) }); p != "" {
		return nil, ctx, "export.panic", "ExportGenesis panicked: " + p
	}
	if err := c4eapp.ModuleBasics.ValidateGenesis(app.AppCodec(), c4eapp.MakeEncodingConfig().TxConfig, gen); err != nil {
		return nil, ctx, "export.invalid." + classify(err.Error()), "exported genesis does not validate: " + err.Error()
	}
	bz, err := json.Marshal(gen)
	if err != nil {
		return nil, ctx, "export.json", err.Error()
	}
	napp := env.NewBareApp()
	hdr := ctx.BlockHeader()
	var initErr string
	if p := env.Try(func() {
		napp.InitChain(abci.RequestInitChain{ChainId: hdr.ChainID, Time: hdr.Time, Validators: []abci.ValidatorUpdate{}, ConsensusParams: simapp.DefaultConsensusParams, AppStateBytes: bz, InitialHeight: hdr.Height})
	}); p != "" {
		initErr = p
	}
	if initErr != "" {
		return nil, ctx, "import.panic", "InitChain of the exported state panicked: " + initErr
	}
	// InitChain leaves the genesis state in the deliver state; continue on it (same height and time as the exporting node)
	ne := &env.Env{App: napp, Users: e.Users, ValAddr: e.ValAddr, ValSet: e.ValSet}
	nctx := napp.BaseApp.NewContext(false, hdr).WithLogger(log.NewNopLogger())
	ne.Ctx = nctx
	// re-export must reproduce the same state (custom modules compared raw)
	var gen2 map[string]json.RawMessage
	if p := env.Try(func() { gen2 = napp.VerifModuleManager().ExportGenesis(nctx, napp.AppCodec()) }); p != "" {
		return nil, ctx, "reexport.panic", p
	}
	for _, mod := range []string{"cfeminter", "cfedistributor", "cfevesting", "cfesignature", "bank", "auth"} {
		if string(gen[mod]) != string(gen2[mod]) {
			return nil, ctx, "reexport.differs." + mod, fmt.Sprintf("re-export of module %s differs after import", mod)
		}
	}
	return ne, nctx.WithValue(envKey, ne), "", ""
}

func classify(msg string) string {
	switch {
	case strings.Contains(msg, "vesting start-time cannot be before end-time"):
		return "vesting-start-not-before-end"
	case strings.Contains(msg, "delegated vesting"):
		return "delegated-vesting"
	}
	return "other"
}

func apply(w *walk.Worker, ctx sdk.Context, e *graph.Edge, path []*graph.Edge, g *graph.Graph) (sdk.Context, []walk.Finding, bool) {
	s := w.State.(*state)
	act := e.Act
	exp := g.States[e.To]
	name := graph.Str(act["name"])
	var fs []walk.Finding
	fail := func(prop, kind, sig, msg string, ex, ob any) {
		fs = append(fs, walk.Finding{Prop: prop, Kind: kind, Sig: sig, Msg: msg, Path: walk.PathActs(path), Expected: ex, Observed: ob})
	}
	w.Count("act." + name)
	en := curEnv(ctx, s.base)
	var supBefore map[string]sdk.Int
	switch name {
	case "configure":
		ne := newEnv(s.meta, graph.Rec(exp["mcfg"]), exp["dcfg"])
		en = ne
		ctx = ne.Ctx.WithValue(envKey, ne)
	case "block":
		t := s.meta.Time(graph.Num(act["t"]))
		supBefore = s.project(en, ctx).Supply
		if p := env.Try(func() { en.App.EndBlocker(ctx, abci.RequestEndBlock{Height: ctx.BlockHeight()}) }); p != "" {
			fail("C10", "panic", "chain.endblock.panic", "EndBlocker panicked: "+p, nil, p)
			return ctx, fs, true
		}
		hdr := header(ctx, t)
		ctx = ctx.WithBlockHeader(hdr).WithEventManager(sdk.NewEventManager())
		if p := env.Try(func() { en.App.BeginBlocker(ctx, abci.RequestBeginBlock{Header: hdr}) }); p != "" {
			fail("C10", "panic", "chain.beginblock.panic", "BeginBlocker panicked: "+p, "no panic", p)
			return ctx, fs, true
		}
	case "fee":
		supBefore = s.project(en, ctx).Supply
		for key, cv := range graph.Rec(act["v"]) {
			coins := sdk.NewCoins()
			for d, a := range graph.Rec(cv) {
				if n := graph.Num(a); n > 0 {
					coins = coins.Add(sdk.NewCoin(d, sdk.NewInt(n)))
				}
			}
			mod := dtypes.DistributorMainAccount
			if strings.HasPrefix(key, "MOD-") {
				mod = s.ids[key[4:]]
			}
			if err := en.App.BankKeeper.SendCoinsFromAccountToModule(ctx, s.users["payer"].Addr, mod, coins); err != nil {
				panic("fee transfer failed: " + err.Error())
			}
		}
	case "opaque":
		supBefore = s.project(en, ctx).Supply
		outcome, detail := s.opaque(en, ctx, graph.Rec(act["msg"]))
		w.Count("opaque." + graph.Str(graph.Rec(act["msg"])["m"]) + "." + outcome)
		if outcome == "rejected" && len(detail) > 60 {
			w.Count("opaque.detail." + detail[:60])
		}
		if outcome == "panic" {
			fail("C20", "panic", "chain.opaque.panic", "message panicked: "+detail, nil, detail)
			return ctx, fs, true
		}
	case "updateminter":
		supBefore = s.project(en, ctx).Supply
		p := s.meta.BuildParams(graph.Rec(act["payload"]))
		msg := &mtypes.MsgUpdateParams{Authority: env.Gov(), MintDenom: p.MintDenom, StartTime: p.StartTime, Minters: p.Minters}
		var outcome, detail string
		if len(path)%2 == 0 {
			// every other update goes through a real governance proposal (submit, deposit, vote, x/gov EndBlocker)
			w.Count("update.via-gov")
			outcome, detail = s.govExecute(en, ctx, msg)
		} else {
			outcome, detail, _, _ = en.Deliver(ctx, msg)
		}
		want := map[bool]string{true: "ok", false: "rejected"}[graph.Bool(act["ok"])]
		if outcome != want {
			fail("C13", "outcome", "chain.updateminter", "minter parameter update accept/reject differs from the model ("+detail+")", want, outcome)
			return ctx, fs, true
		}
	case "updatedist":
		supBefore = s.project(en, ctx).Supply
		msg := &dtypes.MsgUpdateParams{Authority: env.Gov(), SubDistributors: distributor.BuildCfg(s.meta.P, s.ids, act["payload"])}
		var outcome, detail string
		if len(path)%2 == 0 {
			w.Count("update.via-gov")
			outcome, detail = s.govExecute(en, ctx, msg)
		} else {
			outcome, detail, _, _ = en.Deliver(ctx, msg)
		}
		want := map[bool]string{true: "ok", false: "rejected"}[graph.Bool(act["ok"])]
		if outcome != want {
			fail("C13", "outcome", "chain.updatedist", "distributor parameter update accept/reject differs from the model ("+detail+")", want, outcome)
			return ctx, fs, true
		}
	case "failedtx":
		supBefore = s.project(en, ctx).Supply
		var outcome, detail string
		if len(path)%2 == 0 {
			// as the message list of a passed governance proposal: executed by x/gov's EndBlocker on one branch, dropped as a whole
			w.Count("failedtx.via-gov")
			outcome, detail = s.govExecute(en, ctx, s.updateMsg(graph.Str(act["kind"]), act["payload"]), s.failingGovMsg())
			if outcome == "rejected" && strings.HasPrefix(detail, "handler of a proposal message") {
				detail = "handler of message 1 (proposal)"
			}
		} else {
			outcome, detail = en.DeliverTx(ctx, s.updateMsg(graph.Str(act["kind"]), act["payload"]), s.failingMsg())
		}
		if outcome != "rejected" || !strings.HasPrefix(detail, "handler of message 1") {
			fail("C13", "outcome", "chain.failedtx", "a transaction of a valid update and a failing message was expected to fail in its second message ("+detail+")", "rejected", outcome)
			return ctx, fs, true
		}
	case "export":
		supBefore = s.project(en, ctx).Supply
		ne, nctx, sig, msg := s.exportImport(en, ctx)
		if sig != "" {
			fail("C12", "predicate", "chain."+sig, msg, nil, nil)
			return ctx, fs, true
		}
		en, ctx = ne, nctx
	}
	o := s.project(en, ctx)
	if o.Err != "" {
		fail("C20", "panic", "chain.query", o.Err, nil, nil)
		return ctx, fs, true
	}
	// C01: bank invariant (supply equals the sum of all balances) on the real state
	if msg, broken := bankkeeper.TotalSupply(en.App.BankKeeper)(ctx); broken {
		fail("C01", "predicate", "chain.total-supply-invariant", "bank total-supply invariant broken: "+msg, nil, nil)
	}
	if name != "block" && name != "configure" && supBefore != nil {
		for _, d := range s.denoms {
			if !supBefore[d].Equal(o.Supply[d]) {
				fail("C01", "predicate", "chain.supply-changed."+name, "supply of "+d+" changed outside begin-block", supBefore[d].String(), o.Supply[d].String())
			}
		}
	}
	if name == "block" {
		md := graph.Str(graph.Rec(exp["mcfg"])["denom"])
		for _, d := range s.denoms {
			want := -graph.Num(graph.Rec(act["burned"])[d])
			if d == md {
				want += graph.Num(act["minted"])
			}
			got := o.Supply[d].Sub(supBefore[d])
			if got.String() != fmt.Sprint(want) {
				fail("C01", "mismatch", "chain.supply-delta", fmt.Sprintf("supply change of %s in the block differs from scheduled mint minus configured burn", d), want, got.String())
			}
		}
	}
	// comparison with the model (exact configurations only)
	if !graph.Bool(exp["exact"]) {
		w.Count("inexact")
		return ctx, fs, len(fs) > 0
	}
	owner := map[string]string{"block": "C01", "export": "C12", "configure": "C12", "fee": "C03", "opaque": "C01", "updateminter": "C13", "updatedist": "C13", "failedtx": "C13"}[name]
	ems := graph.Rec(exp["ms"])
	if o.Seq != graph.Num(ems["seq"]) || o.Minted != fmt.Sprint(graph.Num(ems["minted"])) || o.NHist != graph.Num(exp["nhist"]) {
		p := owner
		if name == "block" {
			p = "C02"
		}
		fail(p, "mismatch", "chain.minterstate."+name, "minter state differs from the model", graph.M{"seq": ems["seq"], "minted": ems["minted"], "nhist": exp["nhist"]},
			graph.M{"seq": o.Seq, "minted": o.Minted, "nhist": o.NHist})
	}
	eb, _ := exp["bal"].(graph.M)
	keys := map[string]bool{}
	for k := range eb {
		keys[k] = true
	}
	for k := range o.Bal {
		keys[k] = true
	}
	for k := range keys {
		for _, d := range s.denoms {
			want := fmt.Sprint(graph.Num(graph.Rec(eb[k])[d]))
			got := o.Bal[k][d]
			if got == "" {
				got = "0"
			}
			if want != got {
				p := owner
				if name == "block" {
					p = "C04"
				}
				fail(p, "mismatch", "chain.balance."+name, fmt.Sprintf("balance of %s (%s) differs from the model", k, d), want, got)
			}
		}
	}
	er, _ := exp["rem"].(graph.M)
	keys = map[string]bool{}
	for k := range er {
		keys[k] = true
	}
	for k := range o.Rem {
		keys[k] = true
	}
	for k := range keys {
		for _, d := range s.denoms {
			want := big.NewRat(graph.Num(graph.Rec(er[k])[d]), s.meta.P)
			got := o.Rem[k][d]
			if got == nil {
				got = new(big.Rat)
			}
			if want.Cmp(got) != 0 {
				p := owner
				if name == "block" {
					p = "C04"
				}
				fail(p, "mismatch", "chain.leftover."+name, fmt.Sprintf("leftover of %s (%s) differs from the model", k, d), want.FloatString(18), got.FloatString(18))
			}
		}
	}
	return ctx, fs, len(fs) > 0
}

func newState(g *graph.Graph) *state {
	meta := minter.ReadMeta(g)
	um := map[string]env.User{}
	for _, u := range userList() {
		um[u.Name] = u
	}
	idm, rid := ids(um)
	var denoms []string
	for _, d := range graph.List(graph.Rec(g.Header["meta"])["Denoms"]) {
		denoms = append(denoms, graph.Str(d))
	}
	sort.Strings(denoms)
	return &state{meta: meta, denoms: denoms, ids: idm, rids: rid, users: um}
}

// Run: depth-first walk with context forks (no Commit): C01, C10, C12, C13.
func Run(file string, workers int, budget time.Duration, walks, depth int, seed int64) (*walk.Result, error) {
	g, err := graph.Load(file, "configure")
	if err != nil {
		return nil, err
	}
	newWorker := func(id int) (*walk.Worker, sdk.Context) {
		st := newState(g)
		st.base = env.New(env.Options{})
		return &walk.Worker{ID: id, State: st, Counters: map[string]int{}}, st.base.Ctx
	}
	res := walk.Run(walk.Config{G: g, Workers: workers, NewWorker: newWorker, Budget: budget, Walks: walks, WalkDepth: depth, Seed: seed,
		Apply: func(w *walk.Worker, ctx sdk.Context, e *graph.Edge, path []*graph.Edge) (sdk.Context, []walk.Finding, bool) {
			return apply(w, ctx, e, path, g)
		}})
	for i, e := range g.Edges {
		if i%(len(g.Edges)/5+1) == 0 {
			res.Samples = append(res.Samples, graph.M{"act": e.Act, "post": g.States[e.To]})
		}
	}
	return res, nil
}

// ---------------------------------------------------------------- replicas (C11)

// HeightRecord is what two replicas must agree on at every height.
type HeightRecord struct {
	Height  int64  `json:"height"`
	AppHash string `json:"app_hash"`
	Results string `json:"results"` // digest of message outcomes and events of the block
}

// History executes one model history (a path of the graph) through real ABCI with Commit.
// With restart, the application object is thrown away after every Commit and a new one is opened on the committed store:
// whatever a node keeps in memory between blocks must not matter (a restarted or state-synced replica has none of it).
func (s *state) History(path []*graph.Edge, g *graph.Graph, restart bool, assertInvariants ...bool) ([]HeightRecord, error) {
	var e *env.Env
	var recs []HeightRecord
	var ctx sdk.Context
	h := sha256.New()
	flush := func() {
		if len(assertInvariants) > 0 && assertInvariants[0] {
			// a node started with --inv-check-period 1 runs every registered invariant at the end of every block on the block's
			// own context: invariants only read, so the setting (node-local, not part of any block) must not matter
			e.App.CrisisKeeper.AssertInvariants(ctx)
		}
		eb := e.App.EndBlock(abci.RequestEndBlock{Height: ctx.BlockHeight()})
		for _, ev := range eb.Events {
			fmt.Fprintf(h, "EE|%s|%v\n", ev.Type, ev.Attributes)
		}
		e.App.Commit()
		recs = append(recs, HeightRecord{Height: ctx.BlockHeight(), AppHash: hex.EncodeToString(e.App.LastCommitID().Hash), Results: hex.EncodeToString(h.Sum(nil))})
		h.Reset()
		if restart {
			e.Restart()
		}
	}
	for _, ed := range path {
		act := ed.Act
		switch graph.Str(act["name"]) {
		case "configure":
			post := g.States[ed.To]
			e = newEnv(s.meta, graph.Rec(post["mcfg"]), post["dcfg"])
			ctx = e.Ctx
			recs = append(recs, HeightRecord{Height: 1, AppHash: hex.EncodeToString(e.App.LastCommitID().Hash)})
		case "block":
			flush()
			hdr := header(ctx, s.meta.Time(graph.Num(act["t"])))
			hdr.AppHash = e.App.LastCommitID().Hash
			bb := e.App.BeginBlock(abci.RequestBeginBlock{Header: hdr})
			for _, ev := range bb.Events {
				fmt.Fprintf(h, "BE|%s|%v\n", ev.Type, ev.Attributes)
			}
			ctx = e.App.BaseApp.NewContext(false, hdr).WithLogger(log.NewNopLogger())
		case "fee":
			for key, cv := range graph.Rec(act["v"]) {
				coins := sdk.NewCoins()
				for d, a := range graph.Rec(cv) {
					if n := graph.Num(a); n > 0 {
						coins = coins.Add(sdk.NewCoin(d, sdk.NewInt(n)))
					}
				}
				mod := dtypes.DistributorMainAccount
				if strings.HasPrefix(key, "MOD-") {
					mod = s.ids[key[4:]]
				}
				err := e.App.BankKeeper.SendCoinsFromAccountToModule(ctx, s.users["payer"].Addr, mod, coins)
				fmt.Fprintf(h, "FEE|%v\n", err)
			}
		case "opaque":
			outcome, detail := s.opaque(e, ctx, graph.Rec(act["msg"]))
			fmt.Fprintf(h, "MSG|%s|%s\n", outcome, detail)
		case "updateminter":
			p := s.meta.BuildParams(graph.Rec(act["payload"]))
			if len(recs)%2 == 1 {
				// replicas are not compared with the model: every other update leaves the optional start time out (the zero
				// value), as a proposal written by hand would - whatever the code substitutes must be the same on every node
				p.StartTime = time.Time{}
			}
			outcome, detail, evs, _ := e.Deliver(ctx, &mtypes.MsgUpdateParams{Authority: env.Gov(), MintDenom: p.MintDenom, StartTime: p.StartTime, Minters: p.Minters})
			fmt.Fprintf(h, "UPDM|%s|%s|%v\n", outcome, detail, evs)
		case "updatedist":
			outcome, detail, evs, _ := e.Deliver(ctx, &dtypes.MsgUpdateParams{Authority: env.Gov(), SubDistributors: distributor.BuildCfg(s.meta.P, s.ids, act["payload"])})
			fmt.Fprintf(h, "UPDD|%s|%s|%v\n", outcome, detail, evs)
		case "failedtx":
			outcome, detail := e.DeliverTx(ctx, s.updateMsg(graph.Str(act["kind"]), act["payload"]), s.failingMsg())
			fmt.Fprintf(h, "FTX|%s|%s\n", outcome, detail)
		case "export":
			// replicas keep running; exports are judged by C12
		}
	}
	if e != nil {
		flush()
	}
	return recs, nil
}

// Histories runs n seeded random walks of the graph through real ABCI, `repeat` times each in this
// process, and returns the per-height records of the first run; an in-process disagreement is a finding.
func Histories(file string, n, depth, repeat int, seed int64) (map[string][]HeightRecord, []walk.Finding, int, error) {
	g, err := graph.Load(file, "configure")
	if err != nil {
		return nil, nil, 0, err
	}
	s := newState(g)
	rng := rand.New(rand.NewSource(seed))
	out := map[string][]HeightRecord{}
	var fs []walk.Finding
	blocks := 0
	for i := 0; i < n; i++ {
		var path []*graph.Edge
		node := g.Init
		for d := 0; d < depth; d++ {
			outs := g.Out[node]
			if len(outs) == 0 {
				break
			}
			ed := outs[rng.Intn(len(outs))]
			path = append(path, ed)
			node = ed.To
		}
		var first []HeightRecord
		for r := 0; r < repeat; r++ {
			var recs []HeightRecord
			var herr error
			if p := env.Try(func() { recs, herr = s.History(path, g, r%3 == 1, r%3 == 2) }); p != "" || herr != nil {
				fs = append(fs, walk.Finding{Prop: "C10", Kind: "panic", Sig: "chain.history.panic", Msg: fmt.Sprintf("history panicked through ABCI: %s %v", p, herr), Path: walk.PathActs(path)})
				break
			}
			if r == 0 {
				first = recs
				blocks += len(recs)
				continue
			}
			if fmt.Sprint(first) != fmt.Sprint(recs) {
				fs = append(fs, walk.Finding{Prop: "C11", Kind: "mismatch", Sig: []string{"chain.replica.in-process", "chain.replica.restart", "chain.replica.inv-check-period"}[r%3], Msg: []string{"two replicas in one process disagree on app hash / results", "a replica restarted after every commit disagrees with one that kept running (app hash / results)", "a replica that asserts the registered invariants after every block disagrees with one that never does (app hash / results)"}[r%3], Path: walk.PathActs(path), Expected: first, Observed: recs})
				break
			}
		}
		out[fmt.Sprintf("h%04d", i)] = first
	}
	return out, fs, blocks, nil
}
