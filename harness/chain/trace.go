package chain

// Trace recording (implementation -> specification) for the whole application: long block histories
// (full-app EndBlocker / BeginBlocker, fees, custom-module messages, governance updates, export / import)
// on the configurations TrMinterCfgSeq x TrDistCfgSeq of spec/mc/MBT_Chain.tla; spec/trace/Trace_Chain.tla
// validates the log against the actions, invariants and action properties of Chain.tla.

import (
	"encoding/json"
	"fmt"
	"math/big"
	"math/rand"
	"os"
	"sort"
	"strings"

	mtypes "github.com/chain4energy/c4e-chain/x/cfeminter/types"
	sdk "github.com/cosmos/cosmos-sdk/types"
	abci "github.com/tendermint/tendermint/abci/types"

	"verif/harness/env"
	"verif/harness/graph"
	"verif/harness/walk"
)

type TraceStats struct {
	Traces   int            `json:"traces"`
	Events   int            `json:"events"`
	Counts   map[string]int `json:"counts"`
	Sample   []graph.M      `json:"sample"`
	Findings []walk.Finding `json:"findings,omitempty"`
}

// post-state in the vocabulary of ObsI: minter state, balances, leftovers as numerators over P, supply relative to genesis
func (s *state) postOf(o obs, sup0 map[string]sdk.Int) graph.M {
	bal := graph.M{}
	for k, m := range o.Bal {
		cm := graph.M{}
		for d, v := range m {
			n, _ := new(big.Int).SetString(v, 10)
			cm[d] = n.Int64()
		}
		bal[k] = cm
	}
	rem := graph.M{}
	remx := true
	P := big.NewInt(s.meta.P)
	for k, m := range o.Rem {
		cm := graph.M{}
		for d, r := range m {
			x := new(big.Rat).Mul(r, new(big.Rat).SetInt(P))
			if !x.IsInt() {
				remx = false
				continue
			}
			cm[d] = x.Num().Int64()
		}
		rem[k] = cm
	}
	sup := graph.M{}
	for _, d := range s.denoms {
		sup[d] = o.Supply[d].Sub(sup0[d]).Int64() + s.meta.Supply0
	}
	mn, _ := new(big.Int).SetString(o.Minted, 10)
	return graph.M{"seq": o.Seq, "minted": mn.Int64(), "nhist": o.NHist, "bal": bal, "rem": rem, "remx": remx, "supply": sup}
}

func mentionedModules(dc any) []string {
	seen := map[string]bool{}
	var visit func(x any)
	visit = func(x any) {
		switch v := x.(type) {
		case []any:
			for _, y := range v {
				visit(y)
			}
		case map[string]any:
			if t, ok := v["t"].(string); ok && t == "MOD" {
				seen["MOD-"+graph.Str(v["id"])] = true
			}
			for _, y := range v {
				visit(y)
			}
		}
	}
	visit(dc)
	var out []string
	for k := range seen {
		out = append(out, k)
	}
	sort.Strings(out)
	return out
}

// RunTrace records n executions into out; hdr is a TLC output holding the header lines (meta, trcfgs).
func RunTrace(hdr, out string, n int, seed int64) (*TraceStats, error) {
	g, err := graph.Load(hdr, "configure")
	if err != nil {
		return nil, err
	}
	s := newState(g)
	tc := graph.Rec(g.Header["trcfgs"])
	mcs, mups, dcs, dups := graph.List(tc["minter"]), graph.List(tc["mupd"]), graph.List(tc["dist"]), graph.List(tc["dupd"])
	if len(mcs) == 0 || len(dcs) == 0 {
		return nil, fmt.Errorf("no trace configurations in the header")
	}
	f, err := os.Create(out)
	if err != nil {
		return nil, err
	}
	defer f.Close()
	enc := json.NewEncoder(f)
	st := &TraceStats{Counts: map[string]int{}}
	emit := func(m graph.M) {
		enc.Encode(m)
		st.Events++
		st.Counts["ev."+graph.Str(m["ev"])]++
		if len(st.Sample) < 8 && (st.Events%7 == 1) {
			st.Sample = append(st.Sample, m)
		}
	}
	rng := rand.New(rand.NewSource(seed))
	script := []graph.M{{"m": "createpool", "amt": 10}, {"m": "send", "amt": 4}, {"m": "split", "amt": 1}, {"m": "withdraw"}, {"m": "publish"}, {"m": "send", "amt": 2}, {"m": "createpool", "amt": 7}}
	for i := 0; i < n; i++ {
		mi, di := rng.Intn(len(mcs)), rng.Intn(len(dcs))
		en := newEnv(s.meta, graph.Rec(mcs[mi]), dcs[di])
		ctx := en.Ctx.WithValue(envKey, en)
		curDist := dcs[di]
		sup0 := s.project(en, ctx).Supply
		if i > 0 {
			emit(graph.M{"ev": "reset"})
		}
		emit(graph.M{"ev": "configure", "mi": mi + 1, "di": di + 1})
		st.Traces++
		now := int64(0)
		nblocks := 8 + rng.Intn(28)
		pc := 0
		dead := false
		inflow := int64(0) // everything that entered the distributor's accounts: bounded so that the model's 32-bit arithmetic (amount * P * P) cannot overflow
		for b := 0; b < nblocks && !dead && inflow < 6000; b++ {
			// between two blocks: at most one fee, one custom-module message, one update, one export - in this order
			if mods := mentionedModules(curDist); len(mods) > 0 && rng.Intn(3) > 0 {
				key := mods[rng.Intn(len(mods))]
				amt := int64(1 + rng.Intn(24))
				c := graph.M{"uc4e": amt, "stake": int64(0)}
				coins := sdk.NewCoins(sdk.NewCoin("uc4e", sdk.NewInt(amt)))
				if rng.Intn(4) == 0 {
					sa := int64(1 + rng.Intn(12))
					c["stake"] = sa
					coins = coins.Add(sdk.NewCoin("stake", sdk.NewInt(sa)))
				}
				if err := en.App.BankKeeper.SendCoinsFromAccountToModule(ctx, s.users["payer"].Addr, s.ids[key[4:]], coins); err != nil {
					return nil, fmt.Errorf("fee transfer failed: %w", err)
				}
				inflow += amt + graph.Num(c["stake"])
				emit(graph.M{"ev": "fee", "v": graph.M{key: c}, "post": s.postOf(s.project(en, ctx), sup0)})
			}
			if rng.Intn(3) == 0 {
				m := script[pc%len(script)]
				pc++
				outcome, detail := s.opaque(en, ctx, m)
				st.Counts["opaque."+graph.Str(m["m"])+"."+outcome]++
				if outcome == "panic" {
					st.Findings = append(st.Findings, walk.Finding{Prop: "C20", Kind: "panic", Sig: "trace.chain.opaque.panic", Msg: "message panicked: " + detail})
				}
				emit(graph.M{"ev": "opaque", "m": m["m"], "outcome": outcome, "post": s.postOf(s.project(en, ctx), sup0)})
			}
			if rng.Intn(6) == 0 {
				var ev graph.M
				kind, list := "minter", mups
				if rng.Intn(2) == 0 {
					kind, list = "dist", dups
				}
				k := rng.Intn(len(list))
				if rng.Intn(3) == 0 {
					// the update followed by a failing message in one transaction: nothing may remain of it
					var outcome, detail string
					if rng.Intn(2) == 0 {
						// as the message list of a real governance proposal (submit, deposit, vote, x/gov EndBlocker)
						st.Counts["via-gov"]++
						outcome, detail = s.govExecute(en, ctx, s.updateMsg(kind, list[k]), s.failingGovMsg())
						if outcome == "rejected" && strings.HasPrefix(detail, "handler of a proposal message") {
							// which message failed is not reported by x/gov: the update alone decides (tried on a branch that is dropped)
							cctx, _ := ctx.CacheContext()
							if o1, _, _, _ := en.Deliver(cctx, s.updateMsg(kind, list[k])); o1 == "ok" {
								detail = "handler of message 1 (proposal)"
							}
						}
					} else {
						outcome, detail = en.DeliverTx(ctx, s.updateMsg(kind, list[k]), s.failingMsg())
					}
					if outcome == "rejected" && strings.HasPrefix(detail, "handler of message 1") {
						ev = graph.M{"ev": "failedtx", "kind": kind, "i": k + 1}
					} else if outcome == "rejected" {
						ev = graph.M{"ev": "update", "kind": kind, "i": k + 1, "ok": false}
					} else {
						st.Findings = append(st.Findings, walk.Finding{Prop: "C13", Kind: "outcome", Sig: "trace.chain.failedtx", Msg: "a transaction with a failing message was " + outcome + ": " + detail})
						break
					}
				} else {
					var outcome string
					if rng.Intn(2) == 0 {
						st.Counts["via-gov"]++
						outcome, _ = s.govExecute(en, ctx, s.updateMsg(kind, list[k]))
					} else {
						outcome, _, _, _ = en.Deliver(ctx, s.updateMsg(kind, list[k]))
					}
					if outcome == "panic" {
						st.Findings = append(st.Findings, walk.Finding{Prop: "C20", Kind: "panic", Sig: "trace.chain.update.panic", Msg: "parameter update panicked"})
						break
					}
					ev = graph.M{"ev": "update", "kind": kind, "i": k + 1, "ok": outcome == "ok"}
					if outcome == "ok" && kind == "dist" {
						curDist = dups[k]
					}
				}
				st.Counts[fmt.Sprintf("%s.%s.%v", ev["ev"], ev["kind"], ev["ok"])]++
				ev["post"] = s.postOf(s.project(en, ctx), sup0)
				emit(ev)
			}
			if b > 0 && rng.Intn(9) == 0 {
				ne, nctx, sig, msg := s.exportImport(en, ctx)
				if sig != "" {
					st.Findings = append(st.Findings, walk.Finding{Prop: "C12", Kind: "predicate", Sig: "trace.chain." + sig, Msg: msg})
					break
				}
				en, ctx = ne, nctx
				emit(graph.M{"ev": "export", "post": s.postOf(s.project(en, ctx), sup0)})
			}
			// the block
			now += int64(1 + rng.Intn(2))
			t := s.meta.Time(now)
			panicked := false
			if p := env.Try(func() { en.App.EndBlocker(ctx, abci.RequestEndBlock{Height: ctx.BlockHeight()}) }); p != "" {
				st.Findings = append(st.Findings, walk.Finding{Prop: "C10", Kind: "panic", Sig: "trace.chain.endblock.panic", Msg: "EndBlocker panicked: " + p})
				break
			}
			hdrb := header(ctx, t)
			ctx = ctx.WithBlockHeader(hdrb).WithEventManager(sdk.NewEventManager())
			var bres abci.ResponseBeginBlock
			if p := env.Try(func() { bres = en.App.BeginBlocker(ctx, abci.RequestBeginBlock{Header: hdrb}) }); p != "" {
				panicked, dead = true, true
				st.Counts["block.panic"]++
			}
			mintEv := int64(0)
			for _, x := range bres.Events {
				if !strings.HasSuffix(x.Type, "cfeminter.Mint") {
					continue
				}
				if pm, err := sdk.ParseTypedEvent(x); err == nil {
					if me, ok := pm.(*mtypes.Mint); ok {
						if a, ok := new(big.Int).SetString(me.Amount, 10); ok {
							mintEv = a.Int64()
						}
					}
				}
			}
			o := s.project(en, ctx)
			if o.Err != "" {
				st.Findings = append(st.Findings, walk.Finding{Prop: "C20", Kind: "panic", Sig: "trace.chain.query", Msg: o.Err})
				break
			}
			inflow += mintEv
			emit(graph.M{"ev": "block", "t": now, "panic": panicked, "mintEv": mintEv, "post": s.postOf(o, sup0)})
		}
	}
	return st, nil
}
