package minter

// Numeric stage for C02 / C19 / C10: real parameter sets at real magnitudes (amounts to 10^36, real
// durations, 18-digit multipliers).  For each sample the real BeginBlocker runs a random block partition
// (biased to period / step boundaries) and, on a twin fork, a single block at the same final time; the
// cadence-independence, monotonicity, linear-exactness and no-panic predicates are evaluated on the real
// results.  The schedule value and the reported inflation are recorded together with untrusted hints (the
// epoch amounts of exponential periods) so that Apalache can check them against spec/MinterMath.tla at
// P = 10^18 (lib/numstage.py): a wrong hint can only make that check fail.

import (
	"fmt"
	"math/big"
	"math/rand"
	"sort"
	"time"

	"github.com/chain4energy/c4e-chain/x/cfeminter"
	mtypes "github.com/chain4energy/c4e-chain/x/cfeminter/types"
	codectypes "github.com/cosmos/cosmos-sdk/codec/types"
	sdk "github.com/cosmos/cosmos-sdk/types"

	"verif/harness/env"
	"verif/harness/graph"
	"verif/harness/walk"
)

type NumPeriod struct {
	Kind    string   `json:"kind"`
	Amount  string   `json:"amount"`
	StartMs int64    `json:"start_ms"` // relative to T0
	EndMs   int64    `json:"end_ms"`   // -1: none
	StepMs  int64    `json:"step_ms"`
	Mult    string   `json:"mult"`  // 18-digit decimal as integer
	Hints   []string `json:"hints"` // epoch amounts h_0 .. h_n (18-digit decimals as integers) up to the evaluation time
}

type NumSample struct {
	Periods []NumPeriod `json:"periods"`
	StartMs int64       `json:"start_ms"`
	TMs     int64       `json:"t_ms"`
	Total   string      `json:"total"` // minted by the block partition up to T
	Blocks  int         `json:"blocks"`
	// inflation reported at T (after the last block): current period index (0-based), supply, value (18-digit integer)
	InflPeriod int    `json:"infl_period"`
	Supply     string `json:"supply"`
	Infl       string `json:"infl"`
}

type NumMinterResult struct {
	Samples  []NumSample    `json:"samples"`
	Findings []walk.Finding `json:"findings"`
	Executed int            `json:"executed"` // real BeginBlocker executions
	Kinds    map[string]int `json:"kinds"`
}

var one18 = new(big.Int).Exp(big.NewInt(10), big.NewInt(18), nil)

func randBig(rng *rand.Rand, maxDigits int) *big.Int {
	d := 1 + rng.Intn(maxDigits)
	v := new(big.Int).Rand(rng, new(big.Int).Exp(big.NewInt(10), big.NewInt(int64(d)), nil))
	return v.Add(v, big.NewInt(1))
}

// atMs is T0 + ms milliseconds (not through time.Duration, which saturates at about 292 years)
func atMs(ms int64) time.Time { return time.UnixMilli(env.T0.UnixMilli() + ms).UTC() }

func buildReal(ps []NumPeriod, startMs int64) mtypes.Params {
	p := mtypes.Params{MintDenom: "uc4e", StartTime: atMs(startMs)}
	for i, np := range ps {
		var cfg *codectypes.Any
		amt, _ := sdk.NewIntFromString(np.Amount)
		switch np.Kind {
		case "NO":
			cfg, _ = codectypes.NewAnyWithValue(&mtypes.NoMinting{})
		case "LIN":
			cfg, _ = codectypes.NewAnyWithValue(&mtypes.LinearMinting{Amount: amt})
		case "EXP":
			m, _ := new(big.Int).SetString(np.Mult, 10)
			cfg, _ = codectypes.NewAnyWithValue(&mtypes.ExponentialStepMinting{Amount: amt, StepDuration: time.Duration(np.StepMs) * time.Millisecond, AmountMultiplier: sdk.NewDecFromBigIntWithPrec(m, 18)})
		}
		mi := &mtypes.Minter{SequenceId: uint32(i + 1), Config: cfg}
		if np.EndMs >= 0 {
			t := atMs(np.EndMs)
			mi.EndTime = &t
		}
		p.Minters = append(p.Minters, mi)
	}
	return p
}

func randSchedule(rng *rand.Rand) ([]NumPeriod, int64) {
	n := 1 + rng.Intn(4)
	startMs := int64(rng.Intn(5)) * 1000
	cur := startMs
	var ps []NumPeriod
	for i := 0; i < n; i++ {
		last := i == n-1
		kind := []string{"NO", "LIN", "EXP"}[rng.Intn(3)]
		if last && kind == "LIN" {
			kind = "EXP"
		}
		p := NumPeriod{Kind: kind, Amount: "0", StartMs: cur, EndMs: -1, Mult: "0"}
		lenMs := int64(1000 * (1 + rng.Intn(400000))) // 1 s .. ~4.6 days
		if rng.Intn(3) == 0 {
			lenMs = int64(1000*(1+rng.Intn(400))) * 86400 // up to ~1 year
		}
		if kind != "EXP" && rng.Intn(3) == 0 {
			lenMs += int64(1 + rng.Intn(999)) // period boundaries off the whole second (start and end with different sub-second parts)
		}
		if kind != "EXP" && rng.Intn(8) == 0 {
			lenMs = int64(300+rng.Intn(300)) * 365 * 86400 * 1000 // three to six centuries: longer than a time.Duration can hold
		}
		switch kind {
		case "LIN":
			p.Amount = randBig(rng, 36).String()
		case "EXP":
			p.Amount = randBig(rng, 36).String()
			steps := int64(1 + rng.Intn(12))
			p.StepMs = lenMs / steps
			if p.StepMs < 1000 {
				p.StepMs = 1000
			}
			lenMs = p.StepMs*steps + int64(rng.Intn(int(p.StepMs/1000)+1))*1000 // may end inside a step
			switch rng.Intn(4) {
			case 0:
				p.Mult = one18.String()
			case 1:
				p.Mult = "500000000000000000"
			case 2:
				p.Mult = "0"
			default:
				p.Mult = new(big.Int).Rand(rng, new(big.Int).Add(one18, big.NewInt(1))).String()
			}
		}
		if !last {
			cur += lenMs
			p.EndMs = cur
		}
		ps = append(ps, p)
	}
	return ps, startMs
}

// hints computes the epoch amounts h_0..h_n of an exponential period up to time t with the SDK's own decimal type (untrusted).
func epochHints(p NumPeriod, tMs int64) []string {
	nw := tMs
	if p.EndMs >= 0 && tMs > p.EndMs {
		nw = p.EndMs
	}
	n := (nw - p.StartMs) / p.StepMs
	if nw < p.StartMs {
		n = 0
	}
	amt, _ := sdk.NewIntFromString(p.Amount)
	m, _ := new(big.Int).SetString(p.Mult, 10)
	mult := sdk.NewDecFromBigIntWithPrec(m, 18)
	h := sdk.NewDecFromInt(amt)
	out := []string{h.BigInt().String()}
	for k := int64(0); k < n; k++ {
		h = h.Mul(mult)
		out = append(out, h.BigInt().String())
	}
	return out
}

func RunNumeric(n int, seed int64) (*NumMinterResult, error) {
	holder := env.NewUser("holder")
	supply0 := new(big.Int).Exp(big.NewInt(10), big.NewInt(20), nil)
	e := env.New(env.Options{Users: []env.User{holder}, Balances: map[string]sdk.Coins{"holder": sdk.NewCoins(sdk.NewCoin("uc4e", sdk.NewIntFromBigInt(supply0)))}})
	k := e.App.CfeminterKeeper
	res := &NumMinterResult{Kinds: map[string]int{}}
	rng := rand.New(rand.NewSource(seed))
	fail := func(prop, sig, msg string, c any, ex, ob any) {
		res.Findings = append(res.Findings, walk.Finding{Prop: prop, Kind: "predicate", Sig: sig, Msg: msg, Path: []graph.M{{"case": c}}, Expected: ex, Observed: ob})
	}
	wipe := func(ctx sdk.Context) {
		store := ctx.KVStore(e.App.GetKey(mtypes.StoreKey))
		it := store.Iterator(nil, nil)
		var ks [][]byte
		for ; it.Valid(); it.Next() {
			ks = append(ks, append([]byte{}, it.Key()...))
		}
		it.Close()
		for _, key := range ks {
			store.Delete(key)
		}
	}
	for i := 0; i < n; i++ {
		ps, startMs := randSchedule(rng)
		params := buildReal(ps, startMs)
		gen := mtypes.GenesisState{Params: params, MinterState: mtypes.MinterState{SequenceId: 1, AmountMinted: sdk.ZeroInt(), RemainderToMint: sdk.ZeroDec(),
			LastMintBlockTime: env.T0, RemainderFromPreviousMinter: sdk.ZeroDec()}}
		if err := gen.Validate(); err != nil {
			i--
			continue
		}
		for _, p := range ps {
			res.Kinds[p.Kind]++
		}
		// block times: boundaries, boundaries +/- 1 ms, step boundaries, random instants, jumps over several periods
		horizon := startMs + 1000
		var marks []int64
		for _, p := range ps {
			if p.EndMs >= 0 {
				horizon = p.EndMs
				marks = append(marks, p.EndMs, p.EndMs-1, p.EndMs+1)
			}
			if p.Kind == "EXP" {
				for s := int64(1); s <= 3; s++ {
					marks = append(marks, p.StartMs+s*p.StepMs, p.StartMs+s*p.StepMs+1)
				}
			}
		}
		horizon += int64(1000 * (1 + rng.Intn(500000)))
		for j := 0; j < 3+rng.Intn(6); j++ {
			marks = append(marks, 1+rng.Int63n(horizon))
		}
		set := map[int64]bool{}
		var times []int64
		for _, m := range marks {
			if m > 0 && m <= horizon && !set[m] && rng.Intn(3) != 0 {
				set[m] = true
				times = append(times, m)
			}
		}
		if len(times) == 0 {
			times = []int64{horizon}
		}
		sort.Slice(times, func(a, b int) bool { return times[a] < times[b] })
		if rng.Intn(3) == 0 {
			// every third schedule is stopped inside one of its linear periods, so that the sample (total, inflation) is taken there
			var lins []NumPeriod
			for _, p := range ps {
				if p.Kind == "LIN" && p.EndMs > p.StartMs+1 {
					lins = append(lins, p)
				}
			}
			if len(lins) > 0 {
				p := lins[rng.Intn(len(lins))]
				cut := p.StartMs + 1 + rng.Int63n(p.EndMs-p.StartMs-1)
				var kept []int64
				for _, t := range times {
					if t < cut {
						kept = append(kept, t)
					}
				}
				times = append(kept, cut)
			}
		}
		T := times[len(times)-1]
		desc := map[string]any{"periods": ps, "start_ms": startMs, "times_ms": times}
		run := func(ts []int64) (sdk.Context, *big.Int, string) {
			ctx := env.Fork(e.Ctx).WithBlockTime(env.T0)
			wipe(ctx)
			cfeminter.InitGenesis(ctx, k, e.App.AccountKeeper, gen)
			before := e.App.BankKeeper.GetSupply(ctx, "uc4e").Amount
			prev := before
			for _, t := range ts {
				ctx = ctx.WithBlockTime(atMs(t)).WithBlockHeight(ctx.BlockHeight() + 1)
				if p := env.Try(func() { cfeminter.BeginBlocker(ctx, k) }); p != "" {
					return ctx, nil, p
				}
				res.Executed++
				now := e.App.BankKeeper.GetSupply(ctx, "uc4e").Amount
				if now.LT(prev) {
					return ctx, nil, "NEGATIVE"
				}
				prev = now
			}
			return ctx, prev.Sub(before).BigInt(), ""
		}
		ctx, total, p := run(times)
		if p == "NEGATIVE" {
			fail("C02", "num.minter.negative-block", "a block reduced the supply at real magnitude", desc, nil, nil)
			continue
		}
		if p != "" {
			res.Findings = append(res.Findings, walk.Finding{Prop: "C10", Kind: "panic", Sig: "num.minter.panic", Msg: "BeginBlocker panicked at real magnitude: " + p, Path: []graph.M{{"case": desc}}})
			continue
		}
		_, twin, p2 := run([]int64{T})
		if p2 != "" {
			res.Findings = append(res.Findings, walk.Finding{Prop: "C10", Kind: "panic", Sig: "num.minter.panic", Msg: "BeginBlocker panicked at real magnitude (single block): " + p2, Path: []graph.M{{"case": desc}}})
			continue
		}
		if total.Cmp(twin) != 0 {
			fail("C02", "num.minter.cadence", "cumulative amount minted depends on how time was cut into blocks", desc, twin.String(), total.String())
		}
		// finished linear periods have minted exactly their amount
		sr, _ := k.State(sdk.WrapSDKContext(ctx), &mtypes.QueryStateRequest{})
		for _, h := range sr.StateHistory {
			idx := int(h.SequenceId) - 1
			if idx >= 0 && idx < len(ps) && ps[idx].Kind == "LIN" && h.AmountMinted.String() != ps[idx].Amount {
				fail("C02", "num.minter.linear-exact", "a finished linear period did not mint exactly its amount", desc, ps[idx].Amount, h.AmountMinted.String())
			}
		}
		s := NumSample{StartMs: startMs, TMs: T, Total: total.String(), Blocks: len(times), InflPeriod: int(sr.MinterState.SequenceId) - 1}
		for _, pp := range ps {
			if pp.Kind == "EXP" {
				pp.Hints = epochHints(pp, T)
			}
			s.Periods = append(s.Periods, pp)
		}
		if ir, err := k.Inflation(sdk.WrapSDKContext(ctx), &mtypes.QueryInflationRequest{}); err == nil {
			s.Infl = ir.Inflation.BigInt().String()
			s.Supply = e.App.BankKeeper.GetSupply(ctx, "uc4e").Amount.String()
		} else {
			fail("C19", "num.minter.inflation-error", "inflation query failed at real magnitude: "+err.Error(), desc, nil, nil)
		}
		res.Samples = append(res.Samples, s)
	}
	_ = fmt.Sprint
	return res, nil
}
