package minter

// Trace recording (implementation -> specification): a seeded random driver runs the real cfeminter keeper
// on configurations and block-time sequences wider than the families TLC enumerates and logs one ndjson
// event per step (action + arguments + projected state); spec/trace/Trace_Minter.tla validates the log.

import (
	"encoding/json"
	"fmt"
	"math/big"
	"math/rand"
	"os"

	"github.com/chain4energy/c4e-chain/x/cfeminter"
	mtypes "github.com/chain4energy/c4e-chain/x/cfeminter/types"
	sdk "github.com/cosmos/cosmos-sdk/types"

	"verif/harness/env"
	"verif/harness/graph"
)

type TraceStats struct {
	Traces   int            `json:"traces"`
	Events   int            `json:"events"`
	Blocks   int            `json:"blocks"`
	Updates  int            `json:"updates"`
	Accepted int            `json:"updates_accepted"`
	Kinds    map[string]int `json:"period_kinds"`
	Sample   []graph.M      `json:"sample"`
}

func randCfg(rng *rand.Rand, tmax int64, P int64) graph.M {
	n := 1 + rng.Intn(4)
	start := int64(rng.Intn(4))
	var periods []any
	end := start
	for i := 1; i <= n; i++ {
		last := i == n
		kind := []string{"NO", "LIN", "EXP"}[rng.Intn(3)]
		if last && kind == "LIN" {
			kind = []string{"NO", "EXP"}[rng.Intn(2)]
		}
		p := graph.M{"id": int64(i), "kind": kind, "end": int64(-1), "amount": int64(0), "step": int64(0), "mult": int64(0)}
		if !last {
			end += []int64{1, 2, 4, 8}[rng.Intn(4)]
			p["end"] = end
		}
		switch kind {
		case "LIN":
			p["amount"] = int64(rng.Intn(65))
		case "EXP":
			p["amount"] = int64(1 + rng.Intn(64))
			m := []int64{0, P / 2, P}[rng.Intn(3)]
			p["mult"] = m
			if m == P/2 {
				p["step"] = []int64{4, 8}[rng.Intn(2)] // at most 9 halvings up to Tmax: stays exact at P = 4096
			} else {
				p["step"] = []int64{1, 2, 4, 8}[rng.Intn(4)]
			}
		}
		periods = append(periods, p)
	}
	return graph.M{"denom": "uc4e", "start": start, "periods": periods}
}

// mutate returns an update payload: mostly valid variations of a fresh configuration, sometimes broken ones
func mutateCfg(rng *rand.Rand, tmax, P int64) graph.M {
	c := randCfg(rng, tmax, P)
	ps := graph.List(c["periods"])
	switch rng.Intn(8) {
	case 0: // ids start at 2
		for i, p := range ps {
			graph.Rec(p)["id"] = int64(i + 2)
		}
	case 1: // gap
		if len(ps) > 1 {
			graph.Rec(ps[len(ps)-1])["id"] = int64(len(ps) + 1)
		}
	case 2: // last with end
		graph.Rec(ps[len(ps)-1])["end"] = int64(30)
	case 3:
		c["denom"] = "stake"
	}
	return c
}

func scaled(d sdk.Dec, P int64) int64 {
	r := new(big.Rat).Mul(decRat(d), big.NewRat(P, 1))
	if !r.IsInt() || !r.Num().IsInt64() {
		return -1
	}
	return r.Num().Int64()
}

// RunTrace records n executions into out (ndjson).
func RunTrace(out string, n int, seed int64) (*TraceStats, error) {
	const P, tmax = int64(4096), int64(36)
	meta := Meta{P: P, YearTicks: 8, Supply0: 1000, TickNs: yearNs / 8}
	holder := env.NewUser("holder")
	coins := sdk.NewCoins(sdk.NewCoin("uc4e", sdk.NewInt(meta.Supply0)), sdk.NewCoin("stake", sdk.NewInt(meta.Supply0)))
	e := env.New(env.Options{Users: []env.User{holder}, Balances: map[string]sdk.Coins{"holder": coins}})
	s := &state{env: e, meta: meta, sup0: map[string]sdk.Int{}}
	for _, d := range denoms {
		s.sup0[d] = e.App.BankKeeper.GetSupply(e.Ctx, d).Amount
	}
	f, err := os.Create(out)
	if err != nil {
		return nil, err
	}
	defer f.Close()
	enc := json.NewEncoder(f)
	st := &TraceStats{Kinds: map[string]int{}}
	emit := func(m graph.M) {
		enc.Encode(m)
		st.Events++
		if len(st.Sample) < 8 {
			st.Sample = append(st.Sample, m)
		}
	}
	rng := rand.New(rand.NewSource(seed))
	k := e.App.CfeminterKeeper
	for i := 0; i < n; i++ {
		ctx := env.Fork(e.Ctx).WithBlockTime(env.T0)
		var c graph.M
		var gen mtypes.GenesisState
		for {
			c = randCfg(rng, tmax, P)
			gen = mtypes.GenesisState{Params: meta.BuildParams(c), MinterState: mtypes.MinterState{SequenceId: 1, AmountMinted: sdk.ZeroInt(), RemainderToMint: sdk.ZeroDec(),
				LastMintBlockTime: env.T0, RemainderFromPreviousMinter: sdk.ZeroDec()}}
			if gen.Validate() == nil {
				break
			}
		}
		for _, p := range graph.List(c["periods"]) {
			st.Kinds[graph.Str(graph.Rec(p)["kind"])]++
		}
		if i > 0 {
			emit(graph.M{"ev": "reset"})
		}
		s.wipeStore(ctx)
		cfeminter.InitGenesis(ctx, k, e.App.AccountKeeper, gen)
		emit(graph.M{"ev": "configure", "cfg": c})
		st.Traces++
		now := int64(0)
		steps := 2 + rng.Intn(8)
		for j := 0; j < steps && now < tmax; j++ {
			if rng.Intn(5) == 0 {
				// parameter update
				u := mutateCfg(rng, tmax, P)
				kind := []string{"full", "minters"}[rng.Intn(2)]
				auth := []string{"gov", "gov", "gov", "user"}[rng.Intn(4)]
				params := meta.BuildParams(u)
				var msg sdk.Msg
				if kind == "full" {
					msg = &mtypes.MsgUpdateParams{Authority: s.authority(auth), MintDenom: params.MintDenom, StartTime: params.StartTime, Minters: params.Minters}
				} else {
					msg = &mtypes.MsgUpdateMintersParams{Authority: s.authority(auth), StartTime: params.StartTime, Minters: params.Minters}
				}
				outcome, detail, _, _ := e.Deliver(ctx, msg)
				if outcome == "panic" {
					return nil, fmt.Errorf("update panicked: %s", detail)
				}
				emit(graph.M{"ev": "update", "kind": kind, "auth": auth, "payload": u, "ok": outcome == "ok"})
				st.Updates++
				if outcome == "ok" {
					st.Accepted++
				}
				continue
			}
			now += 1 + int64(rng.Intn(6))
			if now > tmax {
				now = tmax
			}
			ctx = ctx.WithBlockTime(meta.Time(now)).WithBlockHeight(ctx.BlockHeight() + 1)
			before := sdk.ZeroInt()
			for _, d := range denoms {
				before = before.Add(e.App.BankKeeper.GetSupply(ctx, d).Amount)
			}
			p := env.Try(func() { cfeminter.BeginBlocker(ctx, k) })
			after := sdk.ZeroInt()
			for _, d := range denoms {
				after = after.Add(e.App.BankKeeper.GetSupply(ctx, d).Amount)
			}
			o := s.project(ctx)
			sr, _ := k.State(sdk.WrapSDKContext(ctx), &mtypes.QueryStateRequest{})
			emit(graph.M{"ev": "block", "t": now, "minted": after.Sub(before).Int64(), "panic": p != "", "seq": o.Seq, "amountMinted": sr.MinterState.AmountMinted.Int64(),
				"last": o.Last, "nhist": int64(len(o.Hist)), "total": o.Total.Int64(),
				"remPrev": scaled(sr.MinterState.RemainderFromPreviousMinter, P), "remToMint": scaled(sr.MinterState.RemainderToMint, P)})
			st.Blocks++
			if p != "" {
				break
			}
		}
	}
	return st, nil
}
