// Package minter binds spec/Minter.tla to x/cfeminter: every model transition is
// executed on the real keeper / message router and the projected state compared.
package minter

import (
	"fmt"
	"math/big"
	"time"

	"github.com/chain4energy/c4e-chain/x/cfeminter"
	mtypes "github.com/chain4energy/c4e-chain/x/cfeminter/types"
	codectypes "github.com/cosmos/cosmos-sdk/codec/types"
	sdk "github.com/cosmos/cosmos-sdk/types"

	"verif/harness/env"
	"verif/harness/graph"
	"verif/harness/walk"
)

const yearNs = int64(365 * 24 * time.Hour)

type Meta struct {
	P         int64
	YearTicks int64
	Supply0   int64
	TickNs    int64
}

type state struct {
	env  *env.Env
	meta Meta
	cfgs []graph.M
	sup0 map[string]sdk.Int
}

var denoms = []string{"uc4e", "stake"}

func (m Meta) Time(tick int64) time.Time { return env.T0.Add(time.Duration(tick * m.TickNs)) }
func (m Meta) Tick(t time.Time) (int64, bool) {
	d := int64(t.Sub(env.T0))
	return d / m.TickNs, d%m.TickNs == 0
}

func ReadMeta(g *graph.Graph) Meta {
	mm := graph.Rec(g.Header["meta"])
	m := Meta{P: graph.Num(mm["P"]), YearTicks: graph.Num(mm["YearTicks"]), Supply0: graph.Num(mm["Supply0"])}
	m.TickNs = yearNs / m.YearTicks
	return m
}

// decOf converts a model decimal (integer scaled by P) to an exact rational.
func (m Meta) rat(v int64) *big.Rat { return big.NewRat(v, m.P) }

func decRat(d sdk.Dec) *big.Rat {
	if d.IsNil() {
		return new(big.Rat)
	}
	return new(big.Rat).SetFrac(d.BigInt(), big.NewInt(1000000000000000000))
}

// ratToDec converts an exact model rational to sdk.Dec; ok=false if it is not representable with 18 digits.
func ratToDec(r *big.Rat) (sdk.Dec, bool) {
	num := new(big.Int).Mul(r.Num(), big.NewInt(1000000000000000000))
	q, rem := new(big.Int).QuoRem(num, r.Denom(), new(big.Int))
	return sdk.NewDecFromBigIntWithPrec(q, 18), rem.Sign() == 0
}

// BuildParams turns a model configuration record into real Params.
func (m Meta) BuildParams(c graph.M) mtypes.Params {
	p := mtypes.Params{MintDenom: graph.Str(c["denom"]), StartTime: m.Time(graph.Num(c["start"]))}
	for _, pi := range graph.List(c["periods"]) {
		pr := graph.Rec(pi)
		var cfg *codectypes.Any
		switch graph.Str(pr["kind"]) {
		case "NO":
			cfg, _ = codectypes.NewAnyWithValue(&mtypes.NoMinting{})
		case "LIN":
			cfg, _ = codectypes.NewAnyWithValue(&mtypes.LinearMinting{Amount: sdk.NewInt(graph.Num(pr["amount"]))})
		case "EXP":
			mult, _ := ratToDec(m.rat(graph.Num(pr["mult"])))
			cfg, _ = codectypes.NewAnyWithValue(&mtypes.ExponentialStepMinting{Amount: sdk.NewInt(graph.Num(pr["amount"])),
				StepDuration: time.Duration(graph.Num(pr["step"]) * m.TickNs), AmountMultiplier: mult})
		}
		mi := &mtypes.Minter{SequenceId: uint32(graph.Num(pr["id"])), Config: cfg}
		if id := graph.Num(pr["id"]); id < 0 {
			mi.SequenceId = 0
		}
		if end := graph.Num(pr["end"]); end >= 0 {
			t := m.Time(end)
			mi.EndTime = &t
		}
		p.Minters = append(p.Minters, mi)
	}
	return p
}

type obs struct {
	Cfg    graph.M
	CfgErr string
	Seq    int64
	Minted string
	RemP   *big.Rat
	RemT   *big.Rat
	Last   int64
	Hist   []histRec
	Now    int64
	Total  *big.Int
	Infl   *big.Rat
	InflOK bool
}

type histRec struct {
	Seq    int64
	Minted string
	RemP   *big.Rat
	RemT   *big.Rat
	Last   int64
}

func (s *state) projectParams(ctx sdk.Context) (graph.M, string) {
	k := s.env.App.CfeminterKeeper
	resp, err := k.Params(sdk.WrapSDKContext(ctx), &mtypes.QueryParamsRequest{})
	if err != nil {
		return nil, "params query: " + err.Error()
	}
	p := resp.Params
	st, ok := s.meta.Tick(p.StartTime)
	if !ok {
		return nil, "start time not on a tick"
	}
	c := graph.M{"denom": p.MintDenom, "start": st}
	var periods []any
	for _, mi := range p.Minters {
		rec := graph.M{"id": int64(mi.SequenceId), "end": int64(-1), "amount": int64(0), "step": int64(0), "mult": int64(0)}
		if mi.EndTime != nil {
			e, ok := s.meta.Tick(*mi.EndTime)
			if !ok {
				return nil, "end time not on a tick"
			}
			rec["end"] = e
		}
		cfg, err := mi.GetMinterConfig()
		if err != nil {
			return nil, "minter config: " + err.Error()
		}
		switch v := cfg.(type) {
		case *mtypes.NoMinting:
			rec["kind"] = "NO"
		case *mtypes.LinearMinting:
			rec["kind"] = "LIN"
			rec["amount"] = v.Amount.Int64()
		case *mtypes.ExponentialStepMinting:
			rec["kind"] = "EXP"
			rec["amount"] = v.Amount.Int64()
			rec["step"] = int64(v.StepDuration) / s.meta.TickNs
			mr := new(big.Rat).Mul(decRat(v.AmountMultiplier), big.NewRat(s.meta.P, 1))
			if !mr.IsInt() {
				return nil, "multiplier not representable"
			}
			rec["mult"] = mr.Num().Int64()
		}
		periods = append(periods, rec)
	}
	if periods == nil {
		periods = []any{}
	}
	c["periods"] = periods
	return c, ""
}

func (s *state) project(ctx sdk.Context) obs {
	k := s.env.App.CfeminterKeeper
	var o obs
	o.Cfg, o.CfgErr = s.projectParams(ctx)
	sr, err := k.State(sdk.WrapSDKContext(ctx), &mtypes.QueryStateRequest{})
	if err == nil {
		ms := sr.MinterState
		o.Seq, o.Minted = int64(ms.SequenceId), ms.AmountMinted.String()
		o.RemP, o.RemT = decRat(ms.RemainderFromPreviousMinter), decRat(ms.RemainderToMint)
		o.Last, _ = s.meta.Tick(ms.LastMintBlockTime)
		for _, h := range sr.StateHistory {
			l, _ := s.meta.Tick(h.LastMintBlockTime)
			o.Hist = append(o.Hist, histRec{int64(h.SequenceId), h.AmountMinted.String(), decRat(h.RemainderFromPreviousMinter), decRat(h.RemainderToMint), l})
		}
	}
	o.Now, _ = s.meta.Tick(ctx.BlockTime())
	o.Total = new(big.Int)
	for _, d := range denoms {
		o.Total.Add(o.Total, s.env.App.BankKeeper.GetSupply(ctx, d).Amount.Sub(s.sup0[d]).BigInt())
	}
	ir, err := k.Inflation(sdk.WrapSDKContext(ctx), &mtypes.QueryInflationRequest{})
	if err == nil {
		o.Infl, o.InflOK = decRat(ir.Inflation), true
	}
	return o
}

func sameCfg(a, b graph.M) bool { return graph.Key(normCfg(a)) == graph.Key(normCfg(b)) }

func normCfg(c graph.M) graph.M {
	out := graph.M{"denom": graph.Str(c["denom"]), "start": graph.Num(c["start"])}
	var ps []any
	for _, pi := range graph.List(c["periods"]) {
		pr := graph.Rec(pi)
		ps = append(ps, graph.M{"id": graph.Num(pr["id"]), "kind": graph.Str(pr["kind"]), "end": graph.Num(pr["end"]),
			"amount": graph.Num(pr["amount"]), "step": graph.Num(pr["step"]), "mult": graph.Num(pr["mult"])})
	}
	out["periods"] = ps
	return out
}

// compare returns findings for differences between the model post-state and the real projection.
func (s *state) compare(exp graph.M, o obs, act graph.M, path []*graph.Edge) []walk.Finding {
	var fs []walk.Finding
	add := func(prop, sig, msg string, e, ob any) {
		fs = append(fs, walk.Finding{Prop: prop, Kind: "mismatch", Sig: sig, Msg: msg, Path: walk.PathActs(path), Expected: e, Observed: ob})
	}
	name := graph.Str(act["name"])
	owner := map[string]string{"block": "C02", "configure": "C12", "update": "C13", "export": "C12"}[name]
	expCfg := s.cfgs[graph.Num(exp["ci"])-1]
	if o.CfgErr != "" {
		add(owner, "minter.params."+name, "params projection failed: "+o.CfgErr, normCfg(expCfg), nil)
	} else if !sameCfg(expCfg, o.Cfg) {
		add(owner, "minter.params."+name, "stored parameters differ from the model", normCfg(expCfg), normCfg(o.Cfg))
	}
	ems := graph.Rec(exp["ms"])
	exact := graph.Bool(exp["exact"])
	if o.Seq != graph.Num(ems["seq"]) || o.Minted != fmt.Sprint(graph.Num(ems["minted"])) || o.Last != graph.Num(ems["last"]) {
		add(owner, "minter.state."+name, "minter state (sequence id / amount minted / last mint time) differs",
			graph.M{"seq": ems["seq"], "minted": ems["minted"], "last": ems["last"]}, graph.M{"seq": o.Seq, "minted": o.Minted, "last": o.Last})
	}
	if exact && o.RemP != nil {
		if o.RemP.Cmp(s.meta.rat(graph.Num(ems["remPrev"]))) != 0 || o.RemT.Cmp(s.meta.rat(graph.Num(ems["remToMint"]))) != 0 {
			add(owner, "minter.remainder."+name, "decimal remainders differ",
				graph.M{"remPrev": s.meta.rat(graph.Num(ems["remPrev"])).FloatString(18), "remToMint": s.meta.rat(graph.Num(ems["remToMint"])).FloatString(18)},
				graph.M{"remPrev": o.RemP.FloatString(18), "remToMint": o.RemT.FloatString(18)})
		}
	}
	eh := graph.List(exp["hist"])
	if len(eh) != len(o.Hist) {
		add(owner, "minter.history."+name, "state history length differs", len(eh), len(o.Hist))
	} else {
		for i, hi := range eh {
			h := graph.Rec(hi)
			r := o.Hist[i]
			bad := r.Seq != graph.Num(h["seq"]) || r.Minted != fmt.Sprint(graph.Num(h["minted"])) || r.Last != graph.Num(h["last"])
			if exact && (r.RemP.Cmp(s.meta.rat(graph.Num(h["remPrev"]))) != 0 || r.RemT.Cmp(s.meta.rat(graph.Num(h["remToMint"]))) != 0) {
				bad = true
			}
			if bad {
				add(owner, "minter.history."+name, fmt.Sprintf("state history entry %d differs", i+1), h,
					graph.M{"seq": r.Seq, "minted": r.Minted, "last": r.Last, "remPrev": r.RemP.FloatString(18), "remToMint": r.RemT.FloatString(18)})
				break
			}
		}
	}
	if o.Total.Cmp(big.NewInt(graph.Num(exp["total"]))) != 0 {
		p := owner
		if name != "block" {
			p = "C01"
		}
		add(p, "minter.total."+name, "cumulative supply change differs from the model", exp["total"], o.Total.String())
	}
	// inflation: the model value is the same rational truncated at 1/P twice
	ei := graph.Num(exp["infl"])
	if ei >= 0 {
		if !o.InflOK {
			add("C19", "minter.inflation.error", "inflation query failed", s.meta.rat(ei).FloatString(6), nil)
		} else {
			d := new(big.Rat).Sub(o.Infl, s.meta.rat(ei))
			d.Abs(d)
			if d.Cmp(big.NewRat(2, s.meta.P)) > 0 {
				add("C19", "minter.inflation."+inflClass(s.cfgs[graph.Num(exp["ci"])-1], exp), "reported inflation differs from the model", s.meta.rat(ei).FloatString(6), o.Infl.FloatString(6))
			}
		}
	}
	return fs
}

// inflClass classifies the state for the known-finding signature of an inflation mismatch.
func inflClass(c graph.M, exp graph.M) string {
	seq := graph.Num(graph.Rec(exp["ms"])["seq"])
	now := graph.Num(exp["now"])
	for _, pi := range graph.List(c["periods"]) {
		pr := graph.Rec(pi)
		if graph.Num(pr["id"]) == seq {
			end := graph.Num(pr["end"])
			if graph.Str(pr["kind"]) == "LIN" && end >= 0 && now >= end {
				return "linear-after-end"
			}
			return graph.Str(pr["kind"])
		}
	}
	return "none"
}

func (s *state) wipeStore(ctx sdk.Context) {
	store := ctx.KVStore(s.env.App.GetKey(mtypes.StoreKey))
	it := store.Iterator(nil, nil)
	var keys [][]byte
	for ; it.Valid(); it.Next() {
		keys = append(keys, append([]byte{}, it.Key()...))
	}
	it.Close()
	for _, k := range keys {
		store.Delete(k)
	}
}

func (s *state) authority(a string) string {
	switch a {
	case "gov":
		return env.Gov()
	case "user":
		return s.env.Users["holder"].Bech32()
	}
	return a
}

func mintEventAmount(ctx sdk.Context) (string, int) {
	n := 0
	amt := ""
	for _, ev := range ctx.EventManager().Events() {
		if ev.Type == "chain4energy.c4echain.cfeminter.Mint" {
			n++
			for _, a := range ev.Attributes {
				if string(a.Key) == "amount" {
					amt = string(a.Value)
				}
			}
		}
	}
	if len(amt) >= 2 && amt[0] == '"' {
		amt = amt[1 : len(amt)-1]
	}
	return amt, n
}

func apply(w *walk.Worker, ctx sdk.Context, e *graph.Edge, path []*graph.Edge, g *graph.Graph) (sdk.Context, []walk.Finding, bool) {
	s := w.State.(*state)
	k := s.env.App.CfeminterKeeper
	act := e.Act
	exp := g.States[e.To]
	name := graph.Str(act["name"])
	var fs []walk.Finding
	fail := func(prop, kind, sig, msg string, ex, ob any) {
		fs = append(fs, walk.Finding{Prop: prop, Kind: kind, Sig: sig, Msg: msg, Path: walk.PathActs(path), Expected: ex, Observed: ob})
	}
	w.Count("act." + name)
	switch name {
	case "configure":
		c := s.cfgs[graph.Num(exp["ci"])-1]
		gen := mtypes.GenesisState{Params: s.meta.BuildParams(c),
			MinterState: mtypes.MinterState{SequenceId: 1, AmountMinted: sdk.ZeroInt(), RemainderToMint: sdk.ZeroDec(),
				LastMintBlockTime: env.T0, RemainderFromPreviousMinter: sdk.ZeroDec()}}
		if err := gen.Validate(); err != nil {
			fail("C13", "outcome", "minter.genesis.validate", "model-valid configuration rejected by GenesisState.Validate: "+err.Error(), "valid", "invalid")
			return ctx, fs, true
		}
		ctx = ctx.WithBlockTime(env.T0)
		s.wipeStore(ctx)
		if p := env.Try(func() { cfeminter.InitGenesis(ctx, k, s.env.App.AccountKeeper, gen) }); p != "" {
			fail("C12", "panic", "minter.initgenesis.panic", "InitGenesis panicked: "+p, nil, p)
			return ctx, fs, true
		}
	case "block":
		t := graph.Num(act["t"])
		ctx = ctx.WithBlockTime(s.meta.Time(t)).WithBlockHeight(ctx.BlockHeight() + 1)
		supBefore := map[string]sdk.Int{}
		for _, d := range denoms {
			supBefore[d] = s.env.App.BankKeeper.GetSupply(ctx, d).Amount
		}
		p := env.Try(func() { cfeminter.BeginBlocker(ctx, k) })
		if (p != "") != graph.Bool(act["panic"]) {
			fail("C10", "panic", "minter.beginblock.panic", "BeginBlocker panic differs from the model: "+p, act["panic"], p)
			return ctx, fs, true
		}
		if p != "" {
			return ctx, fs, true
		}
		delta := sdk.ZeroInt()
		for _, d := range denoms {
			delta = delta.Add(s.env.App.BankKeeper.GetSupply(ctx, d).Amount.Sub(supBefore[d]))
		}
		if delta.String() != fmt.Sprint(graph.Num(act["minted"])) {
			fail("C02", "mismatch", "minter.block.minted", "amount minted in the block differs from the model", act["minted"], delta.String())
		}
		if delta.IsNegative() {
			fail("C02", "predicate", "minter.block.negative", "a block reduced the supply", ">= 0", delta.String())
		}
		ev, n := mintEventAmount(ctx)
		if n != 1 || ev != delta.String() {
			fail("C18", "mismatch", "minter.event.amount", fmt.Sprintf("Mint event (count %d) does not carry the supply change of the block", n), delta.String(), ev)
		}
	case "update":
		c := s.cfgs[graph.Num(act["payload"])-1]
		params := s.meta.BuildParams(c)
		var msg sdk.Msg
		if graph.Str(act["kind"]) == "full" {
			msg = &mtypes.MsgUpdateParams{Authority: s.authority(graph.Str(act["auth"])), MintDenom: params.MintDenom, StartTime: params.StartTime, Minters: params.Minters}
		} else {
			msg = &mtypes.MsgUpdateMintersParams{Authority: s.authority(graph.Str(act["auth"])), StartTime: params.StartTime, Minters: params.Minters}
		}
		outcome, detail, _, _ := s.env.Deliver(ctx, msg)
		w.Count("outcome.update." + outcome)
		want := "rejected"
		if graph.Bool(act["ok"]) {
			want = "ok"
		}
		if outcome == "panic" {
			fail("C20", "panic", "minter.update.panic", "parameter update panicked: "+detail, want, outcome)
			return ctx, fs, true
		}
		if outcome != want {
			sig := "minter.update.outcome"
			if d := graph.Str(c["denom"]); d != "uc4e" && d != "stake" && d != "" && graph.Str(act["kind"]) == "full" {
				sig = "minter.update.denom-not-validated"
			}
			fail("C13", "outcome", sig, "parameter update accept/reject differs from the model ("+detail+")", want, outcome)
			if outcome == "ok" {
				// the code stored parameters the specification refuses: the model has nothing more to say, but C10 can
				// still be judged on the real chain alone - run the next blocks and see whether begin-block survives
				pctx := env.Fork(ctx)
				now, _ := s.meta.Tick(ctx.BlockTime())
				for dt := int64(1); dt <= 6; dt++ {
					pctx = pctx.WithBlockTime(s.meta.Time(now + dt)).WithBlockHeight(pctx.BlockHeight() + 1)
					if p := env.Try(func() { cfeminter.BeginBlocker(pctx, k) }); p != "" {
						fail("C10", "panic", "minter.beginblock.panic.after-accepted-update", fmt.Sprintf("BeginBlocker panics %d tick(s) after a parameter update that validation should have refused: %s", dt, p), "no panic", p)
						break
					}
				}
			}
			return ctx, fs, true
		}
	case "export":
		var gen *mtypes.GenesisState
		if p := env.Try(func() { gen = cfeminter.ExportGenesis(ctx, k) }); p != "" {
			fail("C12", "panic", "minter.export.panic", "ExportGenesis panicked: "+p, nil, p)
			return ctx, fs, true
		}
		if err := gen.Validate(); err != nil {
			fail("C12", "predicate", "minter.export.invalid", "exported genesis does not validate: "+err.Error(), "valid", err.Error())
		}
		cdc := s.env.App.AppCodec()
		bz, err := cdc.MarshalJSON(gen)
		var gen2 mtypes.GenesisState
		if err == nil {
			err = cdc.UnmarshalJSON(bz, &gen2)
		}
		if err != nil {
			fail("C12", "predicate", "minter.export.json", "exported genesis does not survive JSON: "+err.Error(), nil, nil)
			return ctx, fs, true
		}
		s.wipeStore(ctx)
		if p := env.Try(func() { cfeminter.InitGenesis(ctx, k, s.env.App.AccountKeeper, gen2) }); p != "" {
			fail("C12", "panic", "minter.import.panic", "InitGenesis of the exported state panicked: "+p, nil, p)
			return ctx, fs, true
		}
		if p := env.Try(func() {
			if bz3, err3 := cdc.MarshalJSON(cfeminter.ExportGenesis(ctx, k)); err3 != nil || string(bz3) != string(bz) {
				fail("C12", "mismatch", "minter.reexport.differs", "the genesis exported after import differs from the one that was imported", string(bz), string(bz3))
			}
		}); p != "" {
			fail("C12", "panic", "minter.reexport.panic", "ExportGenesis after import panicked: "+p, nil, p)
		}
	}
	o := s.project(ctx)
	fs = append(fs, s.compare(exp, o, act, path)...)
	return ctx, fs, len(fs) > 0
}

// Run walks the graph in file on real applications.
func Run(file string, workers int, budget time.Duration, walks, depth int, seed int64) (*walk.Result, *graph.Graph, error) {
	g, err := graph.Load(file, "configure")
	if err != nil {
		return nil, nil, err
	}
	meta := ReadMeta(g)
	var cfgs []graph.M
	for _, c := range graph.List(g.Header["cfgs"]) {
		cfgs = append(cfgs, graph.Rec(c))
	}
	newWorker := func(id int) (*walk.Worker, sdk.Context) {
		holder := env.NewUser("holder")
		coins := sdk.NewCoins()
		for _, d := range denoms {
			coins = coins.Add(sdk.NewCoin(d, sdk.NewInt(meta.Supply0)))
		}
		e := env.New(env.Options{Users: []env.User{holder}, Balances: map[string]sdk.Coins{"holder": coins}})
		st := &state{env: e, meta: meta, cfgs: cfgs, sup0: map[string]sdk.Int{}}
		for _, d := range denoms {
			st.sup0[d] = e.App.BankKeeper.GetSupply(e.Ctx, d).Amount
		}
		return &walk.Worker{ID: id, State: st, Counters: map[string]int{}}, e.Ctx
	}
	res := walk.Run(walk.Config{G: g, Workers: workers, NewWorker: newWorker, Budget: budget, Walks: walks, WalkDepth: depth, Seed: seed,
		Apply: func(w *walk.Worker, ctx sdk.Context, e *graph.Edge, path []*graph.Edge) (sdk.Context, []walk.Finding, bool) {
			return apply(w, ctx, e, path, g)
		}})
	// a few transitions verbatim for the evidence file
	for i, e := range g.Edges {
		if i%(len(g.Edges)/5+1) == 0 {
			res.Samples = append(res.Samples, graph.M{"pre": g.States[e.From], "act": e.Act, "post": g.States[e.To]})
		}
	}
	return res, g, nil
}
