// Package graph loads the transition relation that TLC printed (one JSON line
// per explored transition, emitted from an ACTION_CONSTRAINT) and walks it.
package graph

import (
	"bufio"
	"bytes"
	"encoding/json"
	"fmt"
	"hash/fnv"
	"os"
	"sort"
	"strings"
)

type M = map[string]any

type Edge struct {
	ID   int
	From uint64
	To   uint64
	Act  M
}

type Graph struct {
	States map[uint64]M
	Out    map[uint64][]*Edge
	Edges  []*Edge
	Init   uint64
	Header M // merged header records (cfgs, meta, ...)
}

func canon(v any) []byte {
	b, err := json.Marshal(v) // maps are marshalled with sorted keys
	if err != nil {
		panic(err)
	}
	return b
}

func Key(v any) uint64 {
	h := fnv.New64a()
	h.Write(canon(v))
	return h.Sum64()
}

// Load reads a TLC output file.  Edge lines are JSON string literals holding
// {"s":pre,"a":act,"t":post}; header lines hold other objects (merged into Header).
func Load(path string, initAct string) (*Graph, error) {
	f, err := os.Open(path)
	if err != nil {
		return nil, err
	}
	defer f.Close()
	g := &Graph{States: map[uint64]M{}, Out: map[uint64][]*Edge{}, Header: M{}}
	sc := bufio.NewScanner(f)
	sc.Buffer(make([]byte, 1<<20), 1<<28)
	haveInit := false
	for sc.Scan() {
		line := sc.Bytes()
		if len(line) == 0 || line[0] != '"' {
			continue
		}
		var s string
		if err := json.Unmarshal(line, &s); err != nil {
			continue
		}
		dec := json.NewDecoder(strings.NewReader(s))
		dec.UseNumber()
		var rec M
		if err := dec.Decode(&rec); err != nil {
			continue
		}
		a, isEdge := rec["a"].(M)
		if !isEdge {
			for k, v := range rec {
				g.Header[k] = v
			}
			continue
		}
		var pk, tk uint64
		if p, ok := rec["post"].(M); ok {
			// compact format: s / t are state ids, the post-state is printed in full
			pk, tk = Key(rec["s"]), Key(rec["t"])
			if _, ok := g.States[tk]; !ok {
				g.States[tk] = p
			}
		} else {
			pre, _ := rec["s"].(M)
			post, _ := rec["t"].(M)
			pk, tk = Key(pre), Key(post)
			if _, ok := g.States[pk]; !ok {
				g.States[pk] = pre
			}
			if _, ok := g.States[tk]; !ok {
				g.States[tk] = post
			}
		}
		e := &Edge{ID: len(g.Edges), From: pk, To: tk, Act: a}
		g.Edges = append(g.Edges, e)
		g.Out[pk] = append(g.Out[pk], e)
		if !haveInit && a["name"] == initAct {
			g.Init = pk
			haveInit = true
		}
	}
	if err := sc.Err(); err != nil {
		return nil, err
	}
	if !haveInit {
		return nil, fmt.Errorf("no %q edge found in %s (%d edges)", initAct, path, len(g.Edges))
	}
	// deterministic edge order irrespective of TLC worker interleaving
	sk := make([][]byte, len(g.Edges))
	for i, e := range g.Edges {
		sk[i] = canon(e.Act)
	}
	for k := range g.Out {
		es := g.Out[k]
		sort.SliceStable(es, func(i, j int) bool {
			c := bytes.Compare(sk[es[i].ID], sk[es[j].ID])
			return c < 0 || (c == 0 && es[i].To < es[j].To)
		})
	}
	return g, nil
}

// Num converts a JSON number (json.Number / float64) to int64.
func Num(v any) int64 {
	switch x := v.(type) {
	case json.Number:
		n, err := x.Int64()
		if err != nil {
			panic(fmt.Sprintf("not an integer: %v", x))
		}
		return n
	case float64:
		return int64(x)
	case int:
		return int64(x)
	case int64:
		return x
	case nil:
		return 0
	}
	panic(fmt.Sprintf("not a number: %T %v", v, v))
}

func Str(v any) string {
	s, _ := v.(string)
	return s
}

func Bool(v any) bool {
	b, _ := v.(bool)
	return b
}

func List(v any) []any {
	l, _ := v.([]any)
	return l
}

func Rec(v any) M {
	m, _ := v.(M)
	return m
}
