// Package hostile binds spec/Hostile.tla (C20) to the real message and query servers: every
// enumerated combination of boundary field values is concretised and executed under recover().
package hostile

import (
	"fmt"
	"strings"
	"time"

	dkeeper "github.com/chain4energy/c4e-chain/x/cfedistributor/keeper"
	dtypes "github.com/chain4energy/c4e-chain/x/cfedistributor/types"
	mkeeper "github.com/chain4energy/c4e-chain/x/cfeminter/keeper"
	mtypes "github.com/chain4energy/c4e-chain/x/cfeminter/types"
	skeeper "github.com/chain4energy/c4e-chain/x/cfesignature/keeper"
	stypes "github.com/chain4energy/c4e-chain/x/cfesignature/types"
	"github.com/chain4energy/c4e-chain/x/cfesignature/util"
	vkeeper "github.com/chain4energy/c4e-chain/x/cfevesting/keeper"
	vtypes "github.com/chain4energy/c4e-chain/x/cfevesting/types"
	codectypes "github.com/cosmos/cosmos-sdk/codec/types"
	"github.com/cosmos/cosmos-sdk/crypto/keys/secp256k1"
	sdk "github.com/cosmos/cosmos-sdk/types"
	authtypes "github.com/cosmos/cosmos-sdk/x/auth/types"
	vestingtypes "github.com/cosmos/cosmos-sdk/x/auth/vesting/types"

	"verif/harness/env"
	"verif/harness/graph"
	"verif/harness/walk"
)

type state struct {
	env         *env.Env
	o1          env.User
	g1          env.User
	ref         string
	handlerOnly int
}

var hugeInt, _ = sdk.NewIntFromString("1" + strings.Repeat("0", 40))

func (s *state) addr(c string) string {
	switch c {
	case "EXISTING":
		return s.o1.Bech32()
	case "ABSENT":
		return env.NewUser("absent").Bech32()
	case "VESTING":
		return s.g1.Bech32()
	case "MODULE":
		return authtypes.NewModuleAddress(dtypes.GreenEnergyBoosterCollector).String()
	case "EMPTY":
		return ""
	}
	return "c4e1notavalidaddress"
}
func (s *state) authority(c string) string {
	switch c {
	case "GOV":
		return env.Gov()
	case "USER":
		return s.o1.Bech32()
	case "EMPTY":
		return ""
	}
	return "not-an-address"
}
func intOf(c string) sdk.Int {
	switch c {
	case "NIL":
		return sdk.Int{}
	case "NEG":
		return sdk.NewInt(-5)
	case "ZERO":
		return sdk.ZeroInt()
	case "ONE":
		return sdk.OneInt()
	case "BALANCE":
		return sdk.NewInt(1000)
	}
	return hugeInt
}
func coinsOf(c string) sdk.Coins {
	switch c {
	case "NIL":
		return nil
	case "EMPTY":
		return sdk.Coins{}
	case "NEG":
		return sdk.Coins{sdk.Coin{Denom: "uc4e", Amount: sdk.NewInt(-1)}}
	case "ZERO":
		return sdk.Coins{sdk.Coin{Denom: "uc4e", Amount: sdk.ZeroInt()}}
	case "VALID":
		return sdk.NewCoins(sdk.NewCoin("uc4e", sdk.NewInt(3)))
	case "DUP":
		return sdk.Coins{sdk.NewCoin("uc4e", sdk.NewInt(1)), sdk.NewCoin("uc4e", sdk.NewInt(2))}
	case "NILAMOUNT":
		return sdk.Coins{sdk.Coin{Denom: "uc4e"}}
	case "BADDENOM":
		return sdk.Coins{sdk.Coin{Denom: "!", Amount: sdk.NewInt(1)}}
	}
	return sdk.Coins{sdk.Coin{Denom: "uc4e", Amount: hugeInt}}
}
func nameOf(c string, known string) string {
	switch c {
	case "EMPTY":
		return ""
	case "KNOWN":
		return known
	case "UNKNOWN":
		return "no-such-thing"
	}
	return strings.Repeat("n", 5000)
}
func durOf(c string) time.Duration {
	switch c {
	case "NEG":
		return -time.Hour
	case "ZERO":
		return 0
	case "POS":
		return time.Hour
	}
	return time.Duration(1<<63 - 1)
}
func timeOfClass(c string) int64 {
	switch c {
	case "NEG":
		return -1000
	case "ZERO":
		return 0
	case "NOW":
		return env.T0.Unix()
	}
	return 253402300799 // 9999-12-31T23:59:59Z, the largest instant a protobuf Timestamp can carry
}
func decOf(c string) sdk.Dec {
	switch c {
	case "NIL":
		return sdk.Dec{}
	case "NEG":
		return sdk.MustNewDecFromStr("-0.1")
	case "ZERO":
		return sdk.ZeroDec()
	case "HALF":
		return sdk.MustNewDecFromStr("0.5")
	case "ONE":
		return sdk.OneDec()
	}
	return sdk.NewDecFromInt(hugeInt)
}
func denomOf(c string) string {
	switch c {
	case "EMPTY":
		return ""
	case "VALID":
		return "uc4e"
	case "ONECHAR":
		return "x"
	}
	return "a b c"
}
func denomsOf(c string) []string {
	switch c {
	case "NIL":
		return nil
	case "EMPTYLIST":
		return []string{}
	case "VALID":
		return []string{"uc4e"}
	case "DUP":
		return []string{"uc4e", "uc4e"}
	case "EMPTYDENOM":
		return []string{""}
	}
	return []string{"nosuchdenom"}
}
func mintersOf(c string) []*mtypes.Minter {
	no, _ := codectypes.NewAnyWithValue(&mtypes.NoMinting{})
	end := env.T0.Add(1000 * time.Hour)
	lin := func(a sdk.Int) *codectypes.Any {
		x, _ := codectypes.NewAnyWithValue(&mtypes.LinearMinting{Amount: a})
		return x
	}
	exp := func(a sdk.Int, step time.Duration, m sdk.Dec) *codectypes.Any {
		x, _ := codectypes.NewAnyWithValue(&mtypes.ExponentialStepMinting{Amount: a, StepDuration: step, AmountMultiplier: m})
		return x
	}
	switch c {
	case "NIL":
		return nil
	case "EMPTY":
		return []*mtypes.Minter{}
	case "NILELEM":
		return []*mtypes.Minter{nil}
	case "NILCONFIG":
		return []*mtypes.Minter{{SequenceId: 1}}
	case "UNRESOLVEDANY":
		return []*mtypes.Minter{{SequenceId: 1, Config: &codectypes.Any{TypeUrl: "/chain4energy.c4echain.cfeminter.NoMinting", Value: []byte{}}}}
	case "VALID":
		return []*mtypes.Minter{{SequenceId: 1, EndTime: &end, Config: lin(sdk.NewInt(100))}, {SequenceId: 2, Config: no}}
	case "NILAMOUNT":
		return []*mtypes.Minter{{SequenceId: 1, EndTime: &end, Config: lin(sdk.Int{})}, {SequenceId: 2, Config: no}}
	case "NEGAMOUNT":
		return []*mtypes.Minter{{SequenceId: 1, EndTime: &end, Config: lin(sdk.NewInt(-1))}, {SequenceId: 2, Config: no}}
	case "ZEROSTEP":
		return []*mtypes.Minter{{SequenceId: 1, Config: exp(sdk.NewInt(10), 0, sdk.OneDec())}}
	case "NILMULT":
		return []*mtypes.Minter{{SequenceId: 1, Config: exp(sdk.NewInt(10), time.Hour, sdk.Dec{})}}
	case "NOEND":
		return []*mtypes.Minter{{SequenceId: 1, Config: lin(sdk.NewInt(100))}}
	}
	return []*mtypes.Minter{{SequenceId: 1, EndTime: &end, Config: lin(hugeInt)}, {SequenceId: 2, Config: exp(hugeInt, time.Second, sdk.OneDec())}}
}
func subdistOf(c string) *dtypes.SubDistributor {
	ok := dtypes.SubDistributor{Name: "default_distributor", Sources: []*dtypes.Account{{Type: dtypes.Main}},
		Destinations: dtypes.Destinations{PrimaryShare: dtypes.Account{Type: dtypes.ModuleAccount, Id: dtypes.GreenEnergyBoosterCollector}, BurnShare: sdk.ZeroDec(),
			Shares: []*dtypes.DestinationShare{{Name: "s1", Share: sdk.MustNewDecFromStr("0.5"), Destination: dtypes.Account{Type: dtypes.ModuleAccount, Id: dtypes.GovernanceBoosterCollector}}}}}
	switch c {
	case "NIL":
		return nil
	case "EMPTYNAME":
		ok.Name = ""
	case "NILSOURCE":
		ok.Sources = []*dtypes.Account{nil}
	case "NOSOURCES":
		ok.Sources = nil
	case "NILSHARE":
		ok.Destinations.Shares = []*dtypes.DestinationShare{nil}
	case "NILBURN":
		ok.Destinations.BurnShare = sdk.Dec{}
	case "BADACCOUNT":
		ok.Destinations.PrimaryShare = dtypes.Account{Type: "NOPE", Id: "x"}
	case "HUGE":
		ok.Destinations.Shares[0].Share = sdk.NewDecFromInt(hugeInt)
	}
	return &ok
}
func subdistsOf(c string) []dtypes.SubDistributor {
	switch c {
	case "NIL":
		return nil
	case "EMPTY":
		return []dtypes.SubDistributor{}
	case "VALID":
		return []dtypes.SubDistributor{*subdistOf("VALID")}
	case "DUPNAMES":
		return []dtypes.SubDistributor{*subdistOf("VALID"), *subdistOf("VALID")}
	}
	return []dtypes.SubDistributor{*subdistOf(c)}
}
func jsonOf(c string) string {
	switch c {
	case "EMPTY":
		return ""
	case "MALFORMED":
		return "{\"signature\":"
	case "NONSTRING":
		return "{\"signature\": 5, \"algorithm\": null, \"certificate\": [1,2]}"
	case "VALID":
		return "{\"signature\": \"AAAA\", \"algorithm\": \"ecdsaWithSha256\", \"certificate\": \"x\"}"
	}
	return strings.Repeat("[", 2000) + strings.Repeat("]", 2000)
}
func (s *state) keyOf(c string) string {
	switch c {
	case "EMPTY":
		return ""
	case "KNOWN":
		return util.CalculateHash(s.ref)
	case "UNKNOWN":
		return util.CalculateHash("unknown")
	}
	return strings.Repeat("k", 100000)
}
func (s *state) refOf(c string) string {
	switch c {
	case "EMPTY":
		return ""
	case "KNOWN":
		return s.ref
	case "UNKNOWN":
		return util.CalculateHash("nothing here")
	case "SHORT":
		return "abc"
	}
	return strings.Repeat("r", 100000)
}
func (s *state) pubkeyOf(c string) string {
	switch c {
	case "EMPTY":
		return ""
	case "MALFORMED":
		return "{\"@type\":"
	case "VALID":
		bz, _ := s.env.App.AppCodec().MarshalInterfaceJSON(secp256k1.GenPrivKeyFromSecret([]byte("hostile")).PubKey())
		return string(bz)
	}
	return "{\"@type\":\"/cosmos.bank.v1beta1.MsgSend\"}"
}

func strs(v any) []string {
	var out []string
	for _, x := range graph.List(v) {
		out = append(out, graph.Str(x))
	}
	return out
}

// run executes one attempt; returns outcome ("ok" | "rejected" | "panic"), detail and whether ValidateBasic had passed.
func (s *state) run(ctx sdk.Context, typ string, v []string) (string, string, bool) {
	app := s.env.App
	deliver := func(msg sdk.Msg) (string, string, bool) {
		var vbErr error
		if p := env.Try(func() { vbErr = msg.ValidateBasic() }); p != "" {
			return "panic", "ValidateBasic: " + p, false
		}
		if vbErr != nil {
			// a signer cannot reach the handler with this message; a handler-only weakness is counted, not reported
			if p := env.Try(func() { s.handler(ctx, msg) }); p != "" {
				s.handlerOnly++
			}
			return "rejected", vbErr.Error(), false
		}
		var err error
		if p := env.Try(func() { err = s.handler(ctx, msg) }); p != "" {
			return "panic", "handler after ValidateBasic passed: " + p, true
		}
		if err != nil {
			return "rejected", err.Error(), true
		}
		return "ok", "", true
	}
	query := func(f func() (any, error)) (string, string, bool) {
		var err error
		if p := env.Try(func() { _, err = f() }); p != "" {
			return "panic", "query: " + p, false
		}
		if err != nil {
			return "rejected", err.Error(), false
		}
		return "ok", "", false
	}
	wctx := sdk.WrapSDKContext(ctx)
	switch typ {
	case "msg_createpool":
		return deliver(&vtypes.MsgCreateVestingPool{Owner: s.addr(v[0]), Name: nameOf(v[1], "p"), Amount: intOf(v[2]), Duration: durOf(v[3]), VestingType: nameOf(v[4], "v0")})
	case "msg_withdraw":
		return deliver(&vtypes.MsgWithdrawAllAvailable{Owner: s.addr(v[0])})
	case "msg_send":
		return deliver(&vtypes.MsgSendToVestingAccount{Owner: s.addr(v[0]), ToAddress: s.addr(v[1]), VestingPoolName: nameOf(v[2], "p"), Amount: intOf(v[3]), RestartVesting: v[4] == "T"})
	case "msg_createacc":
		return deliver(&vtypes.MsgCreateVestingAccount{FromAddress: s.addr(v[0]), ToAddress: s.addr(v[1]), Amount: coinsOf(v[2]), StartTime: timeOfClass(v[3]), EndTime: timeOfClass(v[4])})
	case "msg_split":
		return deliver(&vtypes.MsgSplitVesting{FromAddress: s.addr(v[0]), ToAddress: s.addr(v[1]), Amount: coinsOf(v[2])})
	case "msg_move":
		return deliver(&vtypes.MsgMoveAvailableVesting{FromAddress: s.addr(v[0]), ToAddress: s.addr(v[1])})
	case "msg_movedenoms":
		return deliver(&vtypes.MsgMoveAvailableVestingByDenoms{FromAddress: s.addr(v[0]), ToAddress: s.addr(v[1]), Denoms: denomsOf(v[2])})
	case "msg_updatedenom":
		return deliver(&vtypes.MsgUpdateDenomParam{Authority: s.authority(v[0]), Denom: denomOf(v[1])})
	case "msg_minterparams":
		return deliver(&mtypes.MsgUpdateParams{Authority: s.authority(v[0]), MintDenom: denomOf(v[1]), StartTime: time.Unix(timeOfClass(v[2]), 0), Minters: mintersOf(v[3])})
	case "msg_minters":
		return deliver(&mtypes.MsgUpdateMintersParams{Authority: s.authority(v[0]), StartTime: time.Unix(timeOfClass(v[1]), 0), Minters: mintersOf(v[2])})
	case "msg_distparams":
		return deliver(&dtypes.MsgUpdateParams{Authority: s.authority(v[0]), SubDistributors: subdistsOf(v[1])})
	case "msg_distsub":
		return deliver(&dtypes.MsgUpdateSubDistributorParam{Authority: s.authority(v[0]), SubDistributor: subdistOf(v[1])})
	case "msg_distshare":
		return deliver(&dtypes.MsgUpdateSubDistributorDestinationShareParam{Authority: s.authority(v[0]), SubDistributorName: nameOf(v[1], "default_distributor"), DestinationName: nameOf(v[2], "s1"), Share: decOf(v[3])})
	case "msg_distburn":
		return deliver(&dtypes.MsgUpdateSubDistributorBurnShareParam{Authority: s.authority(v[0]), SubDistributorName: nameOf(v[1], "default_distributor"), BurnShare: decOf(v[2])})
	case "msg_publish":
		return deliver(&stypes.MsgPublishReferencePayloadLink{Creator: s.addr(v[0]), Key: s.keyOf(v[1]), Value: s.keyOf(v[2])})
	case "msg_store":
		return deliver(&stypes.MsgStoreSignature{Creator: s.addr(v[0]), StorageKey: s.keyOf(v[1]), SignatureJSON: jsonOf(v[2])})
	case "msg_createaccount":
		return deliver(&stypes.MsgCreateAccount{Creator: s.addr(v[0]), AccAddressString: s.addr(v[1]), PubKeyString: s.pubkeyOf(v[2])})
	// ---- queries
	case "q_vesting_params":
		return query(func() (any, error) {
			return app.CfevestingKeeper.Params(wctx, pick(v[0], &vtypes.QueryParamsRequest{}))
		})
	case "q_vesting_type":
		return query(func() (any, error) {
			return app.CfevestingKeeper.VestingType(wctx, pick(v[0], &vtypes.QueryVestingTypeRequest{}))
		})
	case "q_vesting_pools":
		return query(func() (any, error) {
			return app.CfevestingKeeper.VestingPools(wctx, pick(v[0], &vtypes.QueryVestingPoolsRequest{Owner: s.addr(v[1])}))
		})
	case "q_vesting_summary":
		return query(func() (any, error) {
			return app.CfevestingKeeper.VestingsSummary(wctx, pick(v[0], &vtypes.QueryVestingsSummaryRequest{}))
		})
	case "q_vesting_gsummary":
		return query(func() (any, error) {
			return app.CfevestingKeeper.GenesisVestingsSummary(wctx, pick(v[0], &vtypes.QueryGenesisVestingsSummaryRequest{}))
		})
	case "q_minter_params":
		return query(func() (any, error) { return app.CfeminterKeeper.Params(wctx, pick(v[0], &mtypes.QueryParamsRequest{})) })
	case "q_minter_state":
		return query(func() (any, error) { return app.CfeminterKeeper.State(wctx, pick(v[0], &mtypes.QueryStateRequest{})) })
	case "q_minter_inflation":
		return query(func() (any, error) {
			return app.CfeminterKeeper.Inflation(wctx, pick(v[0], &mtypes.QueryInflationRequest{}))
		})
	case "q_dist_params":
		return query(func() (any, error) {
			return app.CfedistributorKeeper.Params(wctx, pick(v[0], &dtypes.QueryParamsRequest{}))
		})
	case "q_dist_states":
		return query(func() (any, error) {
			return app.CfedistributorKeeper.States(wctx, pick(v[0], &dtypes.QueryStatesRequest{}))
		})
	case "q_sig_params":
		return query(func() (any, error) {
			return app.CfesignatureKeeper.Params(wctx, pick(v[0], &stypes.QueryParamsRequest{}))
		})
	case "q_sig_storagekey":
		return query(func() (any, error) {
			return app.CfesignatureKeeper.CreateStorageKey(wctx, pick(v[0], &stypes.QueryCreateStorageKeyRequest{TargetAccAddress: s.addr(v[1]), ReferenceId: s.refOf(v[2])}))
		})
	case "q_sig_verify":
		return query(func() (any, error) {
			return app.CfesignatureKeeper.VerifySignature(wctx, pick(v[0], &stypes.QueryVerifySignatureRequest{TargetAccAddress: s.addr(v[1]), ReferenceId: s.refOf(v[2])}))
		})
	case "q_sig_accountinfo":
		return query(func() (any, error) {
			return app.CfesignatureKeeper.GetAccountInfo(wctx, pick(v[0], &stypes.QueryGetAccountInfoRequest{AccAddressString: s.addr(v[1])}))
		})
	case "q_sig_createrefid":
		return query(func() (any, error) {
			return app.CfesignatureKeeper.CreateReferenceId(wctx, pick(v[0], &stypes.QueryCreateReferenceIdRequest{Creator: s.addr(v[1])}))
		})
	case "q_sig_createlink":
		return query(func() (any, error) {
			return app.CfesignatureKeeper.CreateReferencePayloadLink(wctx, pick(v[0], &stypes.QueryCreateReferencePayloadLinkRequest{ReferenceId: s.refOf(v[1]), PayloadHash: s.keyOf(v[2])}))
		})
	case "q_sig_getlink":
		return query(func() (any, error) {
			return app.CfesignatureKeeper.GetReferencePayloadLink(wctx, pick(v[0], &stypes.QueryGetReferencePayloadLinkRequest{}))
		})
	case "q_sig_verifylink":
		return query(func() (any, error) {
			return app.CfesignatureKeeper.VerifyReferencePayloadLink(wctx, pick(v[0], &stypes.QueryVerifyReferencePayloadLinkRequest{}))
		})
	}
	return "panic", "harness: unknown attempt type " + typ, false
}

func pick[T any](class string, req *T) *T {
	if class == "NIL" {
		return nil
	}
	return req
}

// handler runs the message server of the message's module on a cache context (write-back on success).
func (s *state) handler(ctx sdk.Context, msg sdk.Msg) error {
	app := s.env.App
	cctx, write := ctx.CacheContext()
	w := sdk.WrapSDKContext(cctx)
	var err error
	switch m := msg.(type) {
	case *vtypes.MsgCreateVestingPool:
		_, err = vkeeper.NewMsgServerImpl(app.CfevestingKeeper).CreateVestingPool(w, m)
	case *vtypes.MsgWithdrawAllAvailable:
		_, err = vkeeper.NewMsgServerImpl(app.CfevestingKeeper).WithdrawAllAvailable(w, m)
	case *vtypes.MsgSendToVestingAccount:
		_, err = vkeeper.NewMsgServerImpl(app.CfevestingKeeper).SendToVestingAccount(w, m)
	case *vtypes.MsgCreateVestingAccount:
		_, err = vkeeper.NewMsgServerImpl(app.CfevestingKeeper).CreateVestingAccount(w, m)
	case *vtypes.MsgSplitVesting:
		_, err = vkeeper.NewMsgServerImpl(app.CfevestingKeeper).SplitVesting(w, m)
	case *vtypes.MsgMoveAvailableVesting:
		_, err = vkeeper.NewMsgServerImpl(app.CfevestingKeeper).MoveAvailableVesting(w, m)
	case *vtypes.MsgMoveAvailableVestingByDenoms:
		_, err = vkeeper.NewMsgServerImpl(app.CfevestingKeeper).MoveAvailableVestingByDenoms(w, m)
	case *vtypes.MsgUpdateDenomParam:
		_, err = vkeeper.NewMsgServerImpl(app.CfevestingKeeper).UpdateDenomParam(w, m)
	case *mtypes.MsgUpdateParams:
		_, err = mkeeper.NewMsgServerImpl(app.CfeminterKeeper).UpdateParams(w, m)
	case *mtypes.MsgUpdateMintersParams:
		_, err = mkeeper.NewMsgServerImpl(app.CfeminterKeeper).UpdateMintersParams(w, m)
	case *dtypes.MsgUpdateParams:
		_, err = dkeeper.NewMsgServerImpl(app.CfedistributorKeeper).UpdateParams(w, m)
	case *dtypes.MsgUpdateSubDistributorParam:
		_, err = dkeeper.NewMsgServerImpl(app.CfedistributorKeeper).UpdateSubDistributorParam(w, m)
	case *dtypes.MsgUpdateSubDistributorDestinationShareParam:
		_, err = dkeeper.NewMsgServerImpl(app.CfedistributorKeeper).UpdateSubDistributorDestinationShareParam(w, m)
	case *dtypes.MsgUpdateSubDistributorBurnShareParam:
		_, err = dkeeper.NewMsgServerImpl(app.CfedistributorKeeper).UpdateSubDistributorBurnShareParam(w, m)
	case *stypes.MsgPublishReferencePayloadLink:
		_, err = skeeper.NewMsgServerImpl(app.CfesignatureKeeper).PublishReferencePayloadLink(w, m)
	case *stypes.MsgStoreSignature:
		_, err = skeeper.NewMsgServerImpl(app.CfesignatureKeeper).StoreSignature(w, m)
	case *stypes.MsgCreateAccount:
		_, err = skeeper.NewMsgServerImpl(app.CfesignatureKeeper).CreateAccount(w, m)
	}
	if err == nil {
		// state changes are discarded: every attempt starts from the same world
		_ = write
	}
	return err
}

func (s *state) populate(ctx sdk.Context) {
	app := s.env.App
	// a pool with a vesting type, a vesting account with locked coins, a stored signature and link
	app.CfevestingKeeper.SetVestingType(ctx, vtypes.VestingType{Name: "v0", LockupPeriod: time.Hour, VestingPeriod: time.Hour, Free: sdk.ZeroDec()})
	if outcome, detail, _, _ := s.env.Deliver(ctx, &vtypes.MsgCreateVestingPool{Owner: s.o1.Bech32(), Name: "p", Amount: sdk.NewInt(100), Duration: time.Hour, VestingType: "v0"}); outcome != "ok" {
		panic("populate: " + detail)
	}
	base := app.AccountKeeper.NewAccountWithAddress(ctx, s.g1.Addr).(*authtypes.BaseAccount)
	ov := sdk.NewCoins(sdk.NewCoin("uc4e", sdk.NewInt(50)))
	bva := vestingtypes.NewBaseVestingAccount(base, ov, env.T0.Unix()+100000)
	app.AccountKeeper.SetAccount(ctx, vestingtypes.NewContinuousVestingAccountRaw(bva, env.T0.Unix()))
	if err := app.BankKeeper.MintCoins(ctx, mtypes.ModuleName, ov); err != nil {
		panic(err)
	}
	if err := app.BankKeeper.SendCoinsFromModuleToAccount(ctx, mtypes.ModuleName, s.g1.Addr, ov); err != nil {
		panic(err)
	}
	srv := skeeper.NewMsgServerImpl(app.CfesignatureKeeper)
	w := sdk.WrapSDKContext(ctx)
	srv.PublishReferencePayloadLink(w, &stypes.MsgPublishReferencePayloadLink{Creator: s.o1.Bech32(), Key: util.CalculateHash(s.ref), Value: "link"})
	srv.StoreSignature(w, &stypes.MsgStoreSignature{Creator: s.o1.Bech32(), StorageKey: util.CalculateHash(util.HashConcat(s.o1.Bech32(), s.ref)), SignatureJSON: jsonOf("VALID")})
}

func apply(w *walk.Worker, ctx sdk.Context, e *graph.Edge, path []*graph.Edge, g *graph.Graph) (sdk.Context, []walk.Finding, bool) {
	s := w.State.(*state)
	act := e.Act
	switch graph.Str(act["name"]) {
	case "configure":
		if graph.Str(act["world"]) == "populated" {
			s.populate(ctx)
		}
		return ctx, nil, false
	case "try":
		typ := graph.Str(act["type"])
		vals := strs(act["vals"])
		w.Count("type." + typ)
		before := s.handlerOnly
		outcome, detail, vbPassed := s.run(ctx, typ, vals)
		w.Count("outcome." + outcome)
		if s.handlerOnly > before {
			w.Count("handler-only-panic." + typ)
		}
		var fs []walk.Finding
		if outcome == "panic" {
			sig := "hostile.panic." + typ + "." + panicClass(typ, vals, detail)
			kind := "panic"
			if vbPassed {
				kind = "panic-after-validatebasic"
			}
			fs = append(fs, walk.Finding{Prop: "C20", Kind: kind, Sig: sig, Msg: typ + " " + strings.Join(vals, ",") + ": " + short(detail), Path: walk.PathActs(path)})
		} else if strings.HasPrefix(typ, "msg_") && graph.Str(act["expect"]) == "rejected" && outcome == "ok" {
			fs = append(fs, walk.Finding{Prop: "C20", Kind: "outcome", Sig: "hostile.accepted-invalid." + typ, Msg: typ + " " + strings.Join(vals, ",") + ": a message with a field that basic validation must refuse was accepted", Path: walk.PathActs(path)})
		}
		return ctx, fs, false
	}
	return ctx, nil, false
}

func short(s string) string {
	if len(s) > 300 {
		return s[:300]
	}
	return s
}

// panicClass names the field class that triggers the panic (known-finding signature).
func panicClass(typ string, vals []string, detail string) string {
	for _, c := range []string{"NIL", "NILELEM", "NILCONFIG", "NILSOURCE", "NILSHARE", "NILBURN", "NILAMOUNT", "NILMULT", "UNRESOLVEDANY", "HUGE", "MAX", "BADDENOM", "ONECHAR", "SPACES"} {
		for _, v := range vals {
			if v == c {
				return c
			}
		}
	}
	return "other"
}

func Run(file string, workers int, budget time.Duration, walks, depth int, seed int64) (*walk.Result, error) {
	g, err := graph.Load(file, "configure")
	if err != nil {
		return nil, err
	}
	newWorker := func(id int) (*walk.Worker, sdk.Context) {
		o1 := env.NewUser("o1")
		e := env.New(env.Options{Users: []env.User{o1}, Balances: map[string]sdk.Coins{"o1": sdk.NewCoins(sdk.NewCoin("uc4e", sdk.NewInt(1000)))}})
		st := &state{env: e, o1: o1, g1: env.NewUser("g1"), ref: util.CalculateHash("hostile-reference")}
		return &walk.Worker{ID: id, State: st, Counters: map[string]int{}}, e.Ctx
	}
	res := walk.Run(walk.Config{G: g, Workers: workers, NewWorker: newWorker, Budget: budget, Walks: 0, Seed: seed, MaxFinding: 200,
		Apply: func(w *walk.Worker, ctx sdk.Context, e *graph.Edge, path []*graph.Edge) (sdk.Context, []walk.Finding, bool) {
			return apply(w, ctx, e, path, g)
		}})
	for i, e := range g.Edges {
		if i%(len(g.Edges)/5+1) == 0 {
			res.Samples = append(res.Samples, graph.M{"act": e.Act})
		}
	}
	_ = fmt.Sprint
	return res, nil
}
