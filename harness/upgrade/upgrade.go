// Package upgrade binds spec/Upgrade.tla to the v1.2.0 upgrade: store migrations of the three
// parameterised modules and the v120 state modifications, run on a store filled with legacy-format records.
package upgrade

import (
	"encoding/binary"
	"fmt"
	"sort"
	"strings"
	"time"

	v120 "github.com/chain4energy/c4e-chain/app/upgrades/v120"
	dkeeper "github.com/chain4energy/c4e-chain/x/cfedistributor/keeper"
	dtypes "github.com/chain4energy/c4e-chain/x/cfedistributor/types"
	mkeeper "github.com/chain4energy/c4e-chain/x/cfeminter/keeper"
	mtypes "github.com/chain4energy/c4e-chain/x/cfeminter/types"
	vkeeper "github.com/chain4energy/c4e-chain/x/cfevesting/keeper"
	v2 "github.com/chain4energy/c4e-chain/x/cfevesting/migrations/v2"
	vtypes "github.com/chain4energy/c4e-chain/x/cfevesting/types"
	codectypes "github.com/cosmos/cosmos-sdk/codec/types"
	"github.com/cosmos/cosmos-sdk/store/prefix"
	sdk "github.com/cosmos/cosmos-sdk/types"
	authtypes "github.com/cosmos/cosmos-sdk/x/auth/types"
	vestingtypes "github.com/cosmos/cosmos-sdk/x/auth/vesting/types"
	paramstypes "github.com/cosmos/cosmos-sdk/x/params/types"

	"verif/harness/env"
	"verif/harness/graph"
	"verif/harness/walk"
)

const day = 24 * time.Hour
const toU = 1000000

type state struct {
	env  *env.Env
	addr map[string]string
}

func dayOf(t time.Time) int64  { return int64(t.Sub(env.T0) / day) }
func timeOf(d int64) time.Time { return env.T0.Add(time.Duration(d) * day) }

func (s *state) wipe(ctx sdk.Context, key string) {
	store := ctx.KVStore(s.env.App.GetKey(key))
	it := store.Iterator(nil, nil)
	var ks [][]byte
	for ; it.Valid(); it.Next() {
		ks = append(ks, append([]byte{}, it.Key()...))
	}
	it.Close()
	for _, k := range ks {
		store.Delete(k)
	}
}

func subspace(s *state, mod string, kt paramstypes.KeyTable) paramstypes.Subspace {
	sp := s.env.App.GetSubspace(mod)
	if !sp.HasKeyTable() {
		sp = sp.WithKeyTable(kt)
	}
	return sp
}

func legacyMinter(id int64) mtypes.LegacyParams {
	end1 := env.T0.Add(400 * day)
	end2 := env.T0.Add(800 * day)
	lin := &mtypes.LinearMinting{Amount: sdk.NewInt(1000000)}
	exp := &mtypes.ExponentialStepMinting{Amount: sdk.NewInt(5000000), StepDuration: 100 * day, AmountMultiplier: sdk.MustNewDecFromStr("0.5")}
	p := mtypes.LegacyParams{MintDenom: "uc4e", MinterConfig: mtypes.MinterConfig{StartTime: env.T0}}
	switch id {
	case 1:
		p.MinterConfig.Minters = []*mtypes.LegacyMinter{{SequenceId: 1, Type: mtypes.NoMintingType}}
	case 2:
		p.MinterConfig.Minters = []*mtypes.LegacyMinter{{SequenceId: 1, EndTime: &end1, Type: mtypes.LinearMintingType, LinearMinting: lin},
			{SequenceId: 2, Type: mtypes.ExponentialStepMintingType, ExponentialStepMinting: exp}}
	case 4:
		// sequence ids that do not start at 1 (valid: the first id is positive, the others consecutive) - e.g. after a finished first period was dropped
		p.MinterConfig.Minters = []*mtypes.LegacyMinter{{SequenceId: 2, EndTime: &end1, Type: mtypes.LinearMintingType, LinearMinting: lin},
			{SequenceId: 3, EndTime: &end2, Type: mtypes.ExponentialStepMintingType, ExponentialStepMinting: exp}, {SequenceId: 4, Type: mtypes.NoMintingType}}
	default:
		p.MinterConfig.Minters = []*mtypes.LegacyMinter{{SequenceId: 1, EndTime: &end1, Type: mtypes.ExponentialStepMintingType, ExponentialStepMinting: exp},
			{SequenceId: 2, EndTime: &end2, Type: mtypes.LinearMintingType, LinearMinting: lin}, {SequenceId: 3, Type: mtypes.NoMintingType}}
	}
	return p
}

func minterString(p mtypes.Params) string {
	var b strings.Builder
	fmt.Fprintf(&b, "%s|%d|", p.MintDenom, p.StartTime.Unix())
	for _, m := range p.Minters {
		end := int64(-1)
		if m.EndTime != nil {
			end = m.EndTime.Unix()
		}
		cfg, err := m.GetMinterConfig()
		cs := "?"
		if err == nil {
			cs = fmt.Sprintf("%T:%s", cfg, cfg.String())
		}
		fmt.Fprintf(&b, "[%d end=%d %s]", m.SequenceId, end, cs)
	}
	return b.String()
}

func expectedMinter(id int64) string {
	lp := legacyMinter(id)
	out := mtypes.Params{MintDenom: lp.MintDenom, StartTime: lp.MinterConfig.StartTime}
	for _, m := range lp.MinterConfig.Minters {
		var cfg mtypes.MinterConfigI
		switch m.Type {
		case mtypes.LinearMintingType:
			cfg = m.LinearMinting
		case mtypes.ExponentialStepMintingType:
			cfg = m.ExponentialStepMinting
		default:
			cfg = &mtypes.NoMinting{}
		}
		end := int64(-1)
		if m.EndTime != nil {
			end = m.EndTime.Unix()
		}
		_ = end
		nm := &mtypes.Minter{SequenceId: m.SequenceId, EndTime: m.EndTime}
		anyCfg, _ := packAny(cfg)
		nm.Config = anyCfg
		out.Minters = append(out.Minters, nm)
	}
	return minterString(out)
}

func packAny(cfg mtypes.MinterConfigI) (*codectypes.Any, error) {
	return codectypes.NewAnyWithValue(cfg)
}

func legacyDist(id int64) dtypes.Params {
	sd := dtypes.SubDistributor{Name: "a", Sources: []*dtypes.Account{{Type: dtypes.Main}},
		Destinations: dtypes.Destinations{PrimaryShare: dtypes.Account{Type: dtypes.ModuleAccount, Id: dtypes.ValidatorsRewardsCollector}, BurnShare: sdk.ZeroDec()}}
	if id == 2 {
		sd.Destinations.BurnShare = sdk.MustNewDecFromStr("0.25")
		sd.Destinations.Shares = []*dtypes.DestinationShare{{Name: "s1", Share: sdk.MustNewDecFromStr("0.3"), Destination: dtypes.Account{Type: dtypes.ModuleAccount, Id: dtypes.GreenEnergyBoosterCollector}}}
	}
	return dtypes.Params{SubDistributors: []dtypes.SubDistributor{sd}}
}

func (s *state) setup(ctx sdk.Context, st graph.M) {
	app := s.env.App
	cdc := app.AppCodec()
	s.wipe(ctx, vtypes.StoreKey)
	s.wipe(ctx, mtypes.StoreKey)
	s.wipe(ctx, dtypes.StoreKey)
	k := app.CfevestingKeeper
	for _, n := range graph.List(st["vtypes"]) {
		k.SetVestingType(ctx, vtypes.VestingType{Name: graph.Str(n), LockupPeriod: 100 * day, VestingPeriod: 200 * day, Free: sdk.MustNewDecFromStr("0.05")})
	}
	store := ctx.KVStore(app.GetKey(vtypes.StoreKey))
	ps := prefix.NewStore(store, v2.AccountVestingPoolsKeyPrefix)
	total := sdk.ZeroInt()
	for o, lst := range graph.Rec(st["pools"]) {
		pl := graph.List(lst)
		if len(pl) == 0 {
			continue
		}
		avp := v2.AccountVestingPools{Address: s.addr[o]}
		for _, x := range pl {
			p := graph.Rec(x)
			vp := &v2.VestingPool{Name: graph.Str(p["name"]), VestingType: graph.Str(p["vt"]), LockStart: timeOf(graph.Num(p["lockStart"])), LockEnd: timeOf(graph.Num(p["lockEnd"])),
				InitiallyLocked: sdk.NewInt(graph.Num(p["init"])).MulRaw(toU), Withdrawn: sdk.NewInt(graph.Num(p["withdrawn"])).MulRaw(toU), Sent: sdk.NewInt(graph.Num(p["sent"])).MulRaw(toU)}
			total = total.Add(vp.InitiallyLocked.Sub(vp.Withdrawn).Sub(vp.Sent))
			avp.VestingPools = append(avp.VestingPools, vp)
		}
		ps.Set([]byte(avp.Address), cdc.MustMarshal(&avp))
	}
	// legacy traces
	var names []string
	for _, a := range graph.List(st["traces"]) {
		names = append(names, graph.Str(a))
	}
	sort.Strings(names)
	ts := prefix.NewStore(store, vtypes.KeyPrefix(v2.VestingAccountKey))
	for i, n := range names {
		va := v2.VestingAccount{Id: uint64(i), Address: s.addr[n]}
		bz := make([]byte, 8)
		binary.BigEndian.PutUint64(bz, uint64(i))
		ts.Set(bz, cdc.MustMarshal(&va))
	}
	cnt := make([]byte, 8)
	binary.BigEndian.PutUint64(cnt, uint64(len(names)))
	store.Set([]byte(v2.VestingAccountCountKey), cnt)
	// accounts
	for n, ax := range graph.Rec(st["accts"]) {
		a := graph.Rec(ax)
		addr, _ := sdk.AccAddressFromBech32(s.addr[n])
		switch graph.Str(a["kind"]) {
		case "cv":
			base := app.AccountKeeper.NewAccountWithAddress(ctx, addr).(*authtypes.BaseAccount)
			ov := sdk.NewCoins(sdk.NewCoin("uc4e", sdk.NewInt(graph.Num(a["ov"])).MulRaw(toU)))
			_ = base.SetSequence(uint64(graph.Num(a["seq"])))
			bva := vestingtypes.NewBaseVestingAccount(base, ov, timeOf(graph.Num(a["end"])).Unix())
			if n := graph.Num(a["dv"]); n > 0 {
				bva.DelegatedVesting = sdk.NewCoins(sdk.NewCoin("uc4e", sdk.NewInt(n).MulRaw(toU)))
			}
			if n := graph.Num(a["df"]); n > 0 {
				bva.DelegatedFree = sdk.NewCoins(sdk.NewCoin("uc4e", sdk.NewInt(n).MulRaw(toU)))
			}
			app.AccountKeeper.SetAccount(ctx, vestingtypes.NewContinuousVestingAccountRaw(bva, timeOf(graph.Num(a["start"])).Unix()))
		case "base":
			app.AccountKeeper.SetAccount(ctx, app.AccountKeeper.NewAccountWithAddress(ctx, addr))
		}
	}
	// legacy parameters in x/params
	vs := subspace(s, vtypes.ModuleName, vtypes.ParamKeyTable())
	vp := vtypes.Params{Denom: graph.Str(st["vdenom"])}
	vs.SetParamSet(ctx, &vp)
	ms := subspace(s, mtypes.ModuleName, mtypes.ParamKeyTable())
	lp := legacyMinter(graph.Num(st["minter"]))
	ms.SetParamSet(ctx, &lp)
	ds := subspace(s, dtypes.ModuleName, dtypes.ParamKeyTable())
	dp := legacyDist(graph.Num(st["dist"]))
	ds.SetParamSet(ctx, &dp)
	_ = total
}

func (s *state) run(ctx sdk.Context) error {
	app := s.env.App
	if err := vkeeper.NewMigrator(app.CfevestingKeeper, subspace(s, vtypes.ModuleName, vtypes.ParamKeyTable())).Migrate2to3(ctx); err != nil {
		return fmt.Errorf("cfevesting Migrate2to3: %w", err)
	}
	if err := mkeeper.NewMigrator(app.CfeminterKeeper, subspace(s, mtypes.ModuleName, mtypes.ParamKeyTable())).Migrate2to3(ctx); err != nil {
		return fmt.Errorf("cfeminter Migrate2to3: %w", err)
	}
	if err := dkeeper.NewMigrator(app.CfedistributorKeeper, subspace(s, dtypes.ModuleName, dtypes.ParamKeyTable())).Migrate2to3(ctx); err != nil {
		return fmt.Errorf("cfedistributor Migrate2to3: %w", err)
	}
	v120.UpdateVestingAccountTraces(ctx, app)
	if err := v120.ModifyVestingPoolsState(ctx, app); err != nil {
		return fmt.Errorf("ModifyVestingPoolsState: %w", err)
	}
	return v120.ModifyVestingAccountsState(ctx, app)
}

type poolRec struct {
	Name, VT                                  string
	LockStart, LockEnd, Init, Sent, Withdrawn int64
	Genesis                                   bool
}

func (s *state) pools(ctx sdk.Context, owner string) ([]poolRec, sdk.Int) {
	avp, found := s.env.App.CfevestingKeeper.GetAccountVestingPools(ctx, s.addr[owner])
	locked := sdk.ZeroInt()
	if !found {
		return nil, locked
	}
	var out []poolRec
	for _, p := range avp.VestingPools {
		out = append(out, poolRec{p.Name, p.VestingType, dayOf(p.LockStart), dayOf(p.LockEnd), p.InitiallyLocked.QuoRaw(toU).Int64(), p.Sent.QuoRaw(toU).Int64(), p.Withdrawn.QuoRaw(toU).Int64(), p.GenesisPool})
		locked = locked.Add(p.GetCurrentlyLocked())
	}
	return out, locked
}

func apply(w *walk.Worker, ctx sdk.Context, e *graph.Edge, path []*graph.Edge, g *graph.Graph) (sdk.Context, []walk.Finding, bool) {
	s := w.State.(*state)
	app := s.env.App
	act := e.Act
	post := graph.Rec(g.States[e.To]["st"])
	name := graph.Str(act["name"])
	var fs []walk.Finding
	fail := func(kind, sig, msg string, ex, ob any) {
		fs = append(fs, walk.Finding{Prop: "C16", Kind: kind, Sig: sig, Msg: msg, Path: walk.PathActs(path), Expected: ex, Observed: ob})
	}
	w.Count("act." + name)
	switch name {
	case "configure":
		s.setup(ctx, post)
		return ctx, nil, false
	case "upgrade":
		// total locked in the legacy store
		pre := graph.Rec(g.States[e.From]["st"])
		preLocked := int64(0)
		for _, lst := range graph.Rec(pre["pools"]) {
			for _, x := range graph.List(lst) {
				p := graph.Rec(x)
				preLocked += graph.Num(p["init"]) - graph.Num(p["sent"]) - graph.Num(p["withdrawn"])
			}
		}
		var err error
		if p := env.Try(func() { err = s.run(ctx) }); p != "" {
			fail("panic", "upgrade.panic", "the upgrade panicked: "+p, nil, p)
			return ctx, fs, true
		}
		if err != nil {
			fail("outcome", "upgrade.error", "the upgrade returned an error: "+err.Error(), "nil", err.Error())
			return ctx, fs, true
		}
		// pools
		total := sdk.ZeroInt()
		for _, o := range []string{"H", "X"} {
			real, locked := s.pools(ctx, o)
			total = total.Add(locked)
			exp := graph.List(graph.Rec(post["pools"])[o])
			if len(real) != len(exp) {
				fail("mismatch", "upgrade.pools.count", fmt.Sprintf("owner %s: number of pools after the upgrade differs", o), len(exp), len(real))
				continue
			}
			for i, x := range exp {
				p := graph.Rec(x)
				want := poolRec{graph.Str(p["name"]), graph.Str(p["vt"]), graph.Num(p["lockStart"]), graph.Num(p["lockEnd"]), graph.Num(p["init"]), graph.Num(p["sent"]), graph.Num(p["withdrawn"]), graph.Bool(p["genesis"])}
				if want != real[i] {
					fail("mismatch", "upgrade.pools.content", fmt.Sprintf("owner %s pool %d differs from the model", o, i+1), fmt.Sprintf("%+v", want), fmt.Sprintf("%+v", real[i]))
				}
			}
		}
		if total.String() != sdk.NewInt(preLocked).MulRaw(toU).String() {
			fail("predicate", "upgrade.locked-not-preserved", "total locked across all pools changed", sdk.NewInt(preLocked).MulRaw(toU).String(), total.String())
		}
		// vesting types
		var real []string
		for _, vt := range app.CfevestingKeeper.GetAllVestingTypes(ctx).VestingTypes {
			real = append(real, vt.Name)
		}
		sort.Strings(real)
		var exp []string
		for _, n := range graph.List(post["vtypes"]) {
			exp = append(exp, graph.Str(n))
		}
		sort.Strings(exp)
		if strings.Join(real, ",") != strings.Join(exp, ",") {
			fail("mismatch", "upgrade.vtypes", "vesting types after the upgrade differ from the model", exp, real)
		}
		// traces
		for a, tx := range graph.Rec(post["traces"]) {
			t := graph.Rec(tx)
			tr, ok := app.CfevestingKeeper.GetVestingAccountTrace(ctx, s.addr[a])
			if !ok || tr.Genesis != graph.Bool(t["genesis"]) || tr.FromGenesisPool != graph.Bool(t["fromPool"]) || tr.FromGenesisAccount != graph.Bool(t["fromAcc"]) {
				fail("mismatch", "upgrade.traces", "lineage trace of "+a+" differs from the model", t, fmt.Sprintf("%v %+v", ok, tr))
			}
		}
		if n := len(app.CfevestingKeeper.GetAllVestingAccountTrace(ctx)); n != len(graph.Rec(post["traces"])) {
			fail("mismatch", "upgrade.traces.count", "number of lineage traces differs", len(graph.Rec(post["traces"])), n)
		}
		// accounts
		for n, ax := range graph.Rec(post["accts"]) {
			a := graph.Rec(ax)
			addr, _ := sdk.AccAddressFromBech32(s.addr[n])
			acc := app.AccountKeeper.GetAccount(ctx, addr)
			switch graph.Str(a["kind"]) {
			case "none":
				if acc != nil {
					fail("mismatch", "upgrade.accounts", "an account appeared: "+n, nil, nil)
				}
			case "base":
				if _, ok := acc.(*authtypes.BaseAccount); !ok {
					fail("mismatch", "upgrade.accounts", "base account changed type: "+n, nil, nil)
				}
			case "cv":
				cv, ok := acc.(*vestingtypes.ContinuousVestingAccount)
				if !ok || dayOf(time.Unix(cv.StartTime, 0)) != graph.Num(a["start"]) || dayOf(time.Unix(cv.EndTime, 0)) != graph.Num(a["end"]) ||
					cv.OriginalVesting.AmountOf("uc4e").QuoRaw(toU).Int64() != graph.Num(a["ov"]) || cv.StartTime%86400 != env.T0.Unix()%86400 ||
					cv.DelegatedVesting.AmountOf("uc4e").QuoRaw(toU).Int64() != graph.Num(a["dv"]) || cv.DelegatedFree.AmountOf("uc4e").QuoRaw(toU).Int64() != graph.Num(a["df"]) ||
					int64(cv.GetSequence()) != graph.Num(a["seq"]) {
					fail("mismatch", "upgrade.accounts", "vesting account "+n+" differs from the model", a, fmt.Sprintf("%v", acc))
				}
			}
		}
		// parameters now live in the module stores and describe the same schedule / shares
		mp := app.CfeminterKeeper.GetParams(ctx)
		if err := mp.Validate(); err != nil {
			fail("predicate", "upgrade.minter.invalid", "migrated minter parameters do not validate: "+err.Error(), nil, nil)
		}
		if got, want := minterString(mp), expectedMinter(graph.Num(post["minter"])); got != want {
			fail("mismatch", "upgrade.minter.params", "migrated minter parameters differ from the legacy ones", want, got)
		}
		dp := app.CfedistributorKeeper.GetParams(ctx)
		if err := dp.Validate(); err != nil {
			fail("predicate", "upgrade.dist.invalid", "migrated distributor parameters do not validate: "+err.Error(), nil, nil)
		}
		if got, want := dp.String(), legacyDist(graph.Num(post["dist"])).String(); got != want {
			fail("mismatch", "upgrade.dist.params", "migrated distributor parameters differ from the legacy ones", want, got)
		}
		if d := app.CfevestingKeeper.GetParams(ctx).Denom; d != graph.Str(post["vdenom"]) {
			fail("mismatch", "upgrade.vesting.params", "migrated vesting denom differs", post["vdenom"], d)
		}
		// the legacy records are gone
		if it := prefix.NewStore(ctx.KVStore(app.GetKey(vtypes.StoreKey)), vtypes.KeyPrefix(v2.VestingAccountCountKey)).Iterator(nil, nil); it.Valid() {
			fail("predicate", "upgrade.legacy-count-left", "legacy trace counter still present", nil, nil)
		}
	}
	return ctx, fs, len(fs) > 0
}

func Run(file string, workers int, budget time.Duration, walks, depth int, seed int64) (*walk.Result, error) {
	g, err := graph.Load(file, "configure")
	if err != nil {
		return nil, err
	}
	newWorker := func(id int) (*walk.Worker, sdk.Context) {
		e := env.New(env.Options{})
		st := &state{env: e, addr: map[string]string{"H": v120.ValidatorsVestingPoolOwner, "X": env.NewUser("X").Bech32(),
			"g1": "c4e1z5h0squtynr8rhwl0mzqdcd0wgmfyvpqmx3y2r", "f1": "c4e13e303u43k7mng4927axuhve0plgsyxc4xky63k", "o1": env.NewUser("o1").Bech32(),
			"s1": v120.Account1, "s2": v120.Account2}}
		return &walk.Worker{ID: id, State: st, Counters: map[string]int{}}, e.Ctx
	}
	res := walk.Run(walk.Config{G: g, Workers: workers, NewWorker: newWorker, Budget: budget, Walks: 0, Seed: seed,
		Apply: func(w *walk.Worker, ctx sdk.Context, e *graph.Edge, path []*graph.Edge) (sdk.Context, []walk.Finding, bool) {
			return apply(w, ctx, e, path, g)
		}})
	for i, e := range g.Edges {
		if i%(len(g.Edges)/5+1) == 0 {
			res.Samples = append(res.Samples, graph.M{"act": e.Act, "post": g.States[e.To]})
		}
	}
	return res, nil
}
