// Package walk executes every transition of a TLC-generated graph on the real
// application (depth-first with CacheContext forks) and collects findings.
package walk

import (
	"fmt"
	"math/rand"
	"sync"
	"time"

	sdk "github.com/cosmos/cosmos-sdk/types"

	"verif/harness/graph"
)

type Finding struct {
	Prop     string    `json:"prop"`
	Kind     string    `json:"kind"` // mismatch | panic | predicate | outcome
	Sig      string    `json:"sig"`  // stable signature of the failing input (known-findings matching)
	Msg      string    `json:"msg"`
	Path     []graph.M `json:"path"`
	Expected any       `json:"expected,omitempty"`
	Observed any       `json:"observed,omitempty"`
}

type Result struct {
	States       int            `json:"states"`
	Edges        int            `json:"edges"`
	Executed     int            `json:"executed"`   // transitions executed on the real application (DFS)
	WalkSteps    int            `json:"walk_steps"` // transitions executed by random walks
	Walks        int            `json:"walks"`
	Pruned       int            `json:"pruned"`     // edges below a divergence that were not executed
	Unexplored   int            `json:"unexplored"` // edges not reached because of the time budget
	Findings     []Finding      `json:"findings"`
	Counters     map[string]int `json:"counters"`
	Samples      []any          `json:"samples"`
	Exhaustive   bool           `json:"exhaustive"`
	WallS        float64        `json:"wall_s"`
	FindingCount map[string]int `json:"finding_count"`
}

// Worker holds the per-goroutine real application.
type Worker struct {
	ID       int
	State    any // module specific (environment, keepers, ...)
	Counters map[string]int
}

func (w *Worker) Count(k string) { w.Counters[k]++ }

// Apply executes edge e on ctx (a private fork) and returns the context to
// continue from, the findings, and whether the subtree must be pruned.
type Apply func(w *Worker, ctx sdk.Context, e *graph.Edge, path []*graph.Edge) (sdk.Context, []Finding, bool)

type Config struct {
	G          *graph.Graph
	Workers    int
	NewWorker  func(id int) (*Worker, sdk.Context) // builds the real app; returns the base context
	Apply      Apply
	Budget     time.Duration // DFS time budget (0 = unlimited)
	Walks      int           // number of random walks after the DFS
	WalkDepth  int
	Seed       int64
	MaxFinding int
}

func PathActs(path []*graph.Edge) []graph.M {
	out := make([]graph.M, len(path))
	for i, e := range path {
		out[i] = e.Act
	}
	return out
}

type shared struct {
	mu       sync.Mutex
	visited  map[uint64]bool
	doneEdge map[int]bool
	res      *Result
	sigSeen  map[string]int
	maxF     int
}

func (s *shared) add(fs []Finding) {
	s.mu.Lock()
	defer s.mu.Unlock()
	for _, f := range fs {
		key := f.Prop + "|" + f.Sig
		s.res.FindingCount[key]++
		s.sigSeen[key]++
		if s.sigSeen[key] <= 3 && len(s.res.Findings) < s.maxF {
			s.res.Findings = append(s.res.Findings, f)
		}
	}
}

func Run(c Config) *Result {
	start := time.Now()
	res := &Result{States: len(c.G.States), Edges: len(c.G.Edges), Counters: map[string]int{}, FindingCount: map[string]int{}}
	sh := &shared{visited: map[uint64]bool{c.G.Init: true}, doneEdge: map[int]bool{}, res: res, sigSeen: map[string]int{}, maxF: c.MaxFinding}
	if sh.maxF == 0 {
		sh.maxF = 60
	}
	var deadline time.Time
	if c.Budget > 0 {
		deadline = start.Add(c.Budget)
	}
	top := c.G.Out[c.G.Init]
	jobs := make(chan *graph.Edge, len(top))
	for _, e := range top {
		jobs <- e
	}
	close(jobs)
	if c.Workers < 1 {
		c.Workers = 1
	}
	var wg sync.WaitGroup
	workers := make([]*Worker, c.Workers)
	bases := make([]sdk.Context, c.Workers)
	for i := 0; i < c.Workers; i++ {
		wg.Add(1)
		go func(i int) {
			defer wg.Done()
			w, base := c.NewWorker(i)
			workers[i], bases[i] = w, base
			executed, pruned := 0, 0
			var dfs func(ctx sdk.Context, e *graph.Edge, path []*graph.Edge)
			dfs = func(ctx sdk.Context, e *graph.Edge, path []*graph.Edge) {
				if !deadline.IsZero() && time.Now().After(deadline) {
					return
				}
				sh.mu.Lock()
				if sh.doneEdge[e.ID] {
					sh.mu.Unlock()
					return
				}
				sh.doneEdge[e.ID] = true
				sh.mu.Unlock()
				fork, _ := ctx.CacheContext()
				fork = fork.WithEventManager(sdk.NewEventManager())
				p2 := append(append([]*graph.Edge{}, path...), e)
				next, fs, prune := safeApply(c, w, fork, e, p2)
				executed++
				if len(fs) > 0 {
					sh.add(fs)
				}
				if prune {
					pruned++
					return
				}
				sh.mu.Lock()
				seen := sh.visited[e.To]
				sh.visited[e.To] = true
				sh.mu.Unlock()
				if seen {
					return
				}
				for _, ne := range c.G.Out[e.To] {
					dfs(next, ne, p2)
				}
			}
			for e := range jobs {
				dfs(base, e, nil)
			}
			sh.mu.Lock()
			res.Executed += executed
			res.Pruned += pruned
			sh.mu.Unlock()
		}(i)
	}
	wg.Wait()
	res.Unexplored = 0
	for _, e := range c.G.Edges {
		if !sh.doneEdge[e.ID] {
			res.Unexplored++
		}
	}
	res.Exhaustive = res.Unexplored == 0
	// random walks over the same edge set: other paths to the same transitions
	if c.Walks > 0 {
		var wg2 sync.WaitGroup
		per := (c.Walks + c.Workers - 1) / c.Workers
		for i := 0; i < c.Workers; i++ {
			wg2.Add(1)
			go func(i int) {
				defer wg2.Done()
				rng := rand.New(rand.NewSource(c.Seed*1000003 + int64(i)))
				w, base := workers[i], bases[i]
				steps := 0
				for k := 0; k < per; k++ {
					ctx, _ := base.CacheContext()
					node := c.G.Init
					var path []*graph.Edge
					for d := 0; d < c.WalkDepth; d++ {
						outs := c.G.Out[node]
						if len(outs) == 0 {
							break
						}
						e := outs[rng.Intn(len(outs))]
						path = append(path, e)
						fork := ctx.WithEventManager(sdk.NewEventManager())
						next, fs, prune := safeApply(c, w, fork, e, path)
						steps++
						if len(fs) > 0 {
							sh.add(fs)
						}
						if prune {
							break
						}
						ctx, node = next, e.To
					}
				}
				sh.mu.Lock()
				res.WalkSteps += steps
				res.Walks += per
				sh.mu.Unlock()
			}(i)
		}
		wg2.Wait()
	}
	for _, w := range workers {
		if w == nil {
			continue
		}
		for k, v := range w.Counters {
			res.Counters[k] += v
		}
	}
	res.WallS = time.Since(start).Seconds()
	return res
}

// safeApply runs the binding's Apply; a panic that escapes it (a read of the real state that panics, e.g. a keeper getter
// decoding foreign bytes) is a finding of the property under check ("*"), not a crash of the harness.
func safeApply(c Config, w *Worker, ctx sdk.Context, e *graph.Edge, path []*graph.Edge) (next sdk.Context, fs []Finding, prune bool) {
	defer func() {
		if r := recover(); r != nil {
			next, prune = ctx, true
			fs = []Finding{{Prop: "*", Kind: "panic", Sig: "harness.observe.panic", Msg: fmt.Sprintf("executing or observing the step panicked outside the guarded calls: %v", r), Path: PathActs(path)}}
		}
	}()
	return c.Apply(w, ctx, e, path)
}
