// Package env builds a real c4e-chain application (MemDB, nop logger) with a
// deterministic genesis for the conformance harness.
package env

import (
	"encoding/json"
	"fmt"
	"time"

	c4eapp "github.com/chain4energy/c4e-chain/app"
	appparams "github.com/chain4energy/c4e-chain/app/params"
	cfedistributortypes "github.com/chain4energy/c4e-chain/x/cfedistributor/types"
	cfemintertypes "github.com/chain4energy/c4e-chain/x/cfeminter/types"
	cfevestingtypes "github.com/chain4energy/c4e-chain/x/cfevesting/types"
	codectypes "github.com/cosmos/cosmos-sdk/codec/types"
	cryptocodec "github.com/cosmos/cosmos-sdk/crypto/codec"
	"github.com/cosmos/cosmos-sdk/crypto/keys/secp256k1"
	cryptotypes "github.com/cosmos/cosmos-sdk/crypto/types"
	"github.com/cosmos/cosmos-sdk/simapp"
	sdk "github.com/cosmos/cosmos-sdk/types"
	authtypes "github.com/cosmos/cosmos-sdk/x/auth/types"
	banktypes "github.com/cosmos/cosmos-sdk/x/bank/types"
	stakingtypes "github.com/cosmos/cosmos-sdk/x/staking/types"
	abci "github.com/tendermint/tendermint/abci/types"
	"github.com/tendermint/tendermint/libs/log"
	tmproto "github.com/tendermint/tendermint/proto/tendermint/types"
	tmtypes "github.com/tendermint/tendermint/types"
	dbm "github.com/tendermint/tm-db"
)

// T0 is model tick 0.
var T0 = time.Unix(1893456000, 0).UTC() // 2030-01-01T00:00:00Z

const BondDenom = "ubond"

type User struct {
	Name string
	Priv cryptotypes.PrivKey
	Addr sdk.AccAddress
}

func (u User) Bech32() string { return u.Addr.String() }

// NewUser derives a deterministic key from a name.
func NewUser(name string) User {
	priv := secp256k1.GenPrivKeyFromSecret([]byte("verif-user-" + name))
	return User{Name: name, Priv: priv, Addr: sdk.AccAddress(priv.PubKey().Address())}
}

type Options struct {
	// Balances of user accounts at genesis (accounts are created as BaseAccounts with public key).
	Balances map[string]sdk.Coins
	// Order of users (deterministic account numbers).
	Users []User
	// Optional module genesis overrides.
	Minter      *cfemintertypes.GenesisState
	Distributor *cfedistributortypes.GenesisState
	Vesting     *cfevestingtypes.GenesisState
	// Extra raw module balances (module name -> coins) added to bank genesis.
	ModuleBalances map[string]sdk.Coins
	ChainID        string
	BondDenom      string
}

type Env struct {
	App      *c4eapp.App
	Ctx      sdk.Context // deliver-state context of the first block (height 2, time T0)
	Users    map[string]User
	ValAddr  sdk.ValAddress
	ValSet   *tmtypes.ValidatorSet
	Genesis  c4eapp.GenesisState
	StateRaw []byte
	DB       dbm.DB // the application's database (MemDB), kept for Restart
}

func newApp() *c4eapp.App { return newAppOn(dbm.NewMemDB()) }

// Restart replaces the application of e by a new instance (fresh process state) over the same committed store.
func (e *Env) Restart() {
	if e.DB == nil {
		panic("restart: environment without database handle")
	}
	e.App = newAppOn(e.DB)
}

func newAppOn(db dbm.DB) *c4eapp.App {
	encoding := c4eapp.MakeEncodingConfig()
	return c4eapp.New(log.NewNopLogger(), db, nil, true, map[int64]bool{}, c4eapp.DefaultNodeHome, 0,
		appparams.EncodingConfig(encoding), simapp.EmptyAppOptions{})
}

// NewBareApp returns an application that has not been initialised (for import of an exported genesis).
func NewBareApp() *c4eapp.App { return newApp() }

// DefaultMinterGenesis is a no-minting schedule starting at T0 with a fresh state.
func DefaultMinterGenesis() *cfemintertypes.GenesisState {
	cfg, _ := codectypes.NewAnyWithValue(&cfemintertypes.NoMinting{})
	return &cfemintertypes.GenesisState{
		Params: cfemintertypes.Params{MintDenom: "uc4e", StartTime: T0,
			Minters: []*cfemintertypes.Minter{{SequenceId: 1, Config: cfg}}},
		MinterState: cfemintertypes.MinterState{SequenceId: 1, AmountMinted: sdk.ZeroInt(), RemainderToMint: sdk.ZeroDec(),
			LastMintBlockTime: T0, RemainderFromPreviousMinter: sdk.ZeroDec()},
	}
}

func New(opts Options) *Env {
	db := dbm.NewMemDB()
	app := newAppOn(db)
	bondDenom := opts.BondDenom
	if bondDenom == "" {
		bondDenom = BondDenom
	}
	encoding := c4eapp.MakeEncodingConfig()
	genesisState := c4eapp.NewDefaultGenesisState(encoding.Marshaler)
	cdc := app.AppCodec()

	// one bonded validator, deterministic keys
	valPriv := secp256k1.GenPrivKeyFromSecret([]byte("verif-validator"))
	tmPub, _ := cryptocodec.ToTmPubKeyInterface(valPriv.PubKey())
	val := &tmtypes.Validator{Address: tmPub.Address(), PubKey: tmPub, VotingPower: 1}
	valSet := tmtypes.NewValidatorSet([]*tmtypes.Validator{val})

	delegator := NewUser("delegator")
	genAccs := []authtypes.GenesisAccount{authtypes.NewBaseAccount(delegator.Addr, delegator.Priv.PubKey(), 0, 0)}
	users := map[string]User{"delegator": delegator}
	balances := []banktypes.Balance{{Address: delegator.Bech32(), Coins: sdk.NewCoins(sdk.NewCoin(bondDenom, sdk.NewInt(1000000)))}}
	for _, u := range opts.Users {
		users[u.Name] = u
		genAccs = append(genAccs, authtypes.NewBaseAccount(u.Addr, u.Priv.PubKey(), 0, 0))
		if c, ok := opts.Balances[u.Name]; ok && !c.IsZero() {
			balances = append(balances, banktypes.Balance{Address: u.Bech32(), Coins: c})
		}
	}
	for mod, c := range opts.ModuleBalances {
		if !c.IsZero() {
			balances = append(balances, banktypes.Balance{Address: authtypes.NewModuleAddress(mod).String(), Coins: c})
		}
	}

	authGenesis := authtypes.NewGenesisState(authtypes.DefaultParams(), genAccs)
	genesisState[authtypes.ModuleName] = cdc.MustMarshalJSON(authGenesis)

	bondAmt := sdk.DefaultPowerReduction
	pk, _ := cryptocodec.FromTmPubKeyInterface(val.PubKey)
	pkAny, _ := codectypes.NewAnyWithValue(pk)
	validator := stakingtypes.Validator{
		OperatorAddress: sdk.ValAddress(val.Address).String(), ConsensusPubkey: pkAny, Status: stakingtypes.Bonded,
		Tokens: bondAmt, DelegatorShares: sdk.OneDec(), UnbondingTime: time.Unix(0, 0).UTC(),
		Commission:        stakingtypes.NewCommission(sdk.ZeroDec(), sdk.ZeroDec(), sdk.ZeroDec()),
		MinSelfDelegation: sdk.ZeroInt(),
	}
	delegations := []stakingtypes.Delegation{stakingtypes.NewDelegation(delegator.Addr, val.Address.Bytes(), sdk.OneDec())}
	stakingParams := stakingtypes.DefaultParams()
	stakingParams.BondDenom = bondDenom
	genesisState[stakingtypes.ModuleName] = cdc.MustMarshalJSON(stakingtypes.NewGenesisState(stakingParams, []stakingtypes.Validator{validator}, delegations))

	balances = append(balances, banktypes.Balance{
		Address: authtypes.NewModuleAddress(stakingtypes.BondedPoolName).String(),
		Coins:   sdk.Coins{sdk.NewCoin(bondDenom, bondAmt)},
	})
	totalSupply := sdk.NewCoins()
	for _, b := range balances {
		totalSupply = totalSupply.Add(b.Coins...)
	}
	genesisState[banktypes.ModuleName] = cdc.MustMarshalJSON(banktypes.NewGenesisState(banktypes.DefaultGenesisState().Params, balances, totalSupply, []banktypes.Metadata{}))

	vg := opts.Vesting
	if vg == nil {
		vg = cfevestingtypes.DefaultGenesis()
		vg.Params.Denom = "uc4e"
	}
	genesisState[cfevestingtypes.ModuleName] = cdc.MustMarshalJSON(vg)

	dg := opts.Distributor
	if dg == nil {
		dg = cfedistributortypes.DefaultGenesis()
		dg.Params.SubDistributors[0].Destinations.PrimaryShare.Id = cfedistributortypes.GreenEnergyBoosterCollector
	}
	genesisState[cfedistributortypes.ModuleName] = cdc.MustMarshalJSON(dg)

	mg := opts.Minter
	if mg == nil {
		mg = DefaultMinterGenesis()
	}
	genesisState[cfemintertypes.ModuleName] = cdc.MustMarshalJSON(mg)

	stateBytes, err := json.MarshalIndent(genesisState, "", " ")
	if err != nil {
		panic(err)
	}
	chainID := opts.ChainID
	if chainID == "" {
		chainID = "verif-chain"
	}
	app.InitChain(abci.RequestInitChain{
		ChainId: chainID, Time: T0, Validators: []abci.ValidatorUpdate{},
		ConsensusParams: simapp.DefaultConsensusParams, AppStateBytes: stateBytes,
	})
	app.Commit()
	hdr := tmproto.Header{ChainID: chainID, Height: app.LastBlockHeight() + 1, Time: T0, AppHash: app.LastCommitID().Hash,
		ValidatorsHash: valSet.Hash(), NextValidatorsHash: valSet.Hash()}
	app.BeginBlock(abci.RequestBeginBlock{Header: hdr})
	ctx := app.BaseApp.NewContext(false, hdr).WithLogger(log.NewNopLogger())
	return &Env{App: app, Ctx: ctx, Users: users, ValAddr: sdk.ValAddress(val.Address), ValSet: valSet, Genesis: genesisState, StateRaw: stateBytes, DB: db}
}

// Fork returns a cache-wrapped copy of ctx with a fresh event manager.
func Fork(ctx sdk.Context) sdk.Context {
	c, _ := ctx.CacheContext()
	return c.WithEventManager(sdk.NewEventManager())
}

// Try runs f and converts a panic into an error string.
func Try(f func()) (panicked string) {
	defer func() {
		if r := recover(); r != nil {
			panicked = fmt.Sprint(r)
		}
	}()
	f()
	return ""
}

// Deliver reproduces what baseapp.runTx does around one message: ValidateBasic,
// then the routed handler on a cache context which is written back only on
// success.  Returns outcome "ok" | "rejected" | "panic", the error / panic text
// and the events of the successful execution.
func (e *Env) Deliver(ctx sdk.Context, msg sdk.Msg) (outcome string, detail string, events []abci.Event, res *sdk.Result) {
	if p := Try(func() {
		if err := msg.ValidateBasic(); err != nil {
			outcome, detail = "rejected", "validate-basic: "+err.Error()
		}
	}); p != "" {
		return "panic", "validate-basic: " + p, nil, nil
	}
	if outcome != "" {
		return
	}
	handler := e.App.MsgServiceRouter().Handler(msg)
	if handler == nil {
		return "rejected", "no handler", nil, nil
	}
	cctx, write := ctx.CacheContext()
	cctx = cctx.WithEventManager(sdk.NewEventManager())
	var err error
	if p := Try(func() { res, err = handler(cctx, msg) }); p != "" {
		return "panic", "handler: " + p, nil, nil
	}
	if err != nil {
		return "rejected", "handler: " + err.Error(), nil, nil
	}
	write()
	// the message service router runs the handler on a fresh event manager and returns its events in the result
	if res != nil {
		events = res.Events
	}
	return "ok", "", events, res
}

// DeliverTx reproduces what baseapp.runTx / runMsgs does for a transaction of several messages (and x/gov for the
// messages of a passed proposal): every handler runs on one cache context, which is written back only if all succeed.
func (e *Env) DeliverTx(ctx sdk.Context, msgs ...sdk.Msg) (outcome string, detail string) {
	for i, msg := range msgs {
		var verr error
		if p := Try(func() { verr = msg.ValidateBasic() }); p != "" {
			return "panic", fmt.Sprintf("validate-basic of message %d: %s", i, p)
		}
		if verr != nil {
			return "rejected", fmt.Sprintf("validate-basic of message %d: %s", i, verr)
		}
	}
	cctx, write := ctx.CacheContext()
	cctx = cctx.WithEventManager(sdk.NewEventManager())
	for i, msg := range msgs {
		handler := e.App.MsgServiceRouter().Handler(msg)
		if handler == nil {
			return "rejected", fmt.Sprintf("message %d: no handler", i)
		}
		var err error
		if p := Try(func() { _, err = handler(cctx, msg) }); p != "" {
			return "panic", fmt.Sprintf("handler of message %d: %s", i, p)
		}
		if err != nil {
			return "rejected", fmt.Sprintf("handler of message %d: %s", i, err)
		}
	}
	write()
	return "ok", ""
}

// Gov is the governance authority address.
func Gov() string { return appparams.GetAuthority() }
