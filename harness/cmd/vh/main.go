// vh: conformance harness binding the TLA+ specifications in /verif/spec to the real c4e-chain application.
package main

import (
	"encoding/json"
	"flag"
	"fmt"
	"os"
	"time"

	"verif/harness/chain"
	"verif/harness/distributor"
	"verif/harness/hostile"
	"verif/harness/minter"
	"verif/harness/signature"
	"verif/harness/upgrade"
	"verif/harness/vesting"
	"verif/harness/walk"
)

func writeResult(path string, res *walk.Result) {
	b, _ := json.MarshalIndent(res, "", " ")
	if path == "" {
		fmt.Println(string(b))
		return
	}
	if err := os.WriteFile(path, b, 0o644); err != nil {
		fmt.Fprintln(os.Stderr, "write result:", err)
		os.Exit(2)
	}
}

func main() {
	if len(os.Args) < 2 {
		fmt.Fprintln(os.Stderr, "usage: vh <minter|...> [flags]")
		os.Exit(2)
	}
	cmd := os.Args[1]
	fs := flag.NewFlagSet(cmd, flag.ExitOnError)
	edges := fs.String("edges", "", "TLC output file with edge lines")
	out := fs.String("out", "", "result file (JSON)")
	workers := fs.Int("workers", 8, "parallel real applications")
	budget := fs.Duration("budget", 0, "DFS time budget (0 = until complete)")
	walks := fs.Int("walks", 0, "random walks after the DFS")
	depth := fs.Int("depth", 8, "random walk depth")
	seed := fs.Int64("seed", 1, "seed for random walks")
	hdr := fs.String("hdr", "", "TLC output holding header lines (trace recorders)")
	repeat := fs.Int("repeat", 2, "in-process repetitions of every history (replicas)")
	fs.Parse(os.Args[2:])
	_ = time.Second
	switch cmd {
	case "minter":
		res, _, err := minter.Run(*edges, *workers, *budget, *walks, *depth, *seed)
		if err != nil {
			fmt.Fprintln(os.Stderr, "minter:", err)
			os.Exit(2)
		}
		writeResult(*out, res)
	case "distributor":
		res, err := distributor.Run(*edges, *workers, *budget, *walks, *depth, *seed)
		if err != nil {
			fmt.Fprintln(os.Stderr, "distributor:", err)
			os.Exit(2)
		}
		writeResult(*out, res)
	case "vesting":
		res, err := vesting.Run(*edges, *workers, *budget, *walks, *depth, *seed)
		if err != nil {
			fmt.Fprintln(os.Stderr, "vesting:", err)
			os.Exit(2)
		}
		writeResult(*out, res)
	case "signature":
		res, err := signature.Run(*edges, *workers, *budget, *walks, *depth, *seed)
		if err != nil {
			fmt.Fprintln(os.Stderr, "signature:", err)
			os.Exit(2)
		}
		writeResult(*out, res)
	case "chain":
		res, err := chain.Run(*edges, *workers, *budget, *walks, *depth, *seed)
		if err != nil {
			fmt.Fprintln(os.Stderr, "chain:", err)
			os.Exit(2)
		}
		writeResult(*out, res)
	case "replicas":
		// one replica process: n seeded histories through real ABCI, each repeated in-process
		hs, fs, blocks, err := chain.Histories(*edges, *walks, *depth, *repeat, *seed)
		if err != nil {
			fmt.Fprintln(os.Stderr, "replicas:", err)
			os.Exit(2)
		}
		b, _ := json.MarshalIndent(map[string]any{"histories": hs, "findings": fs, "blocks": blocks}, "", " ")
		if err := os.WriteFile(*out, b, 0o644); err != nil {
			fmt.Fprintln(os.Stderr, err)
			os.Exit(2)
		}
	case "upgrade":
		res, err := upgrade.Run(*edges, *workers, *budget, *walks, *depth, *seed)
		if err != nil {
			fmt.Fprintln(os.Stderr, "upgrade:", err)
			os.Exit(2)
		}
		writeResult(*out, res)
	case "hostile":
		res, err := hostile.Run(*edges, *workers, *budget, *walks, *depth, *seed)
		if err != nil {
			fmt.Fprintln(os.Stderr, "hostile:", err)
			os.Exit(2)
		}
		writeResult(*out, res)
	case "numminter":
		res, err := minter.RunNumeric(*walks, *seed)
		if err != nil {
			fmt.Fprintln(os.Stderr, "numminter:", err)
			os.Exit(2)
		}
		b, _ := json.MarshalIndent(res, "", " ")
		if err := os.WriteFile(*out, b, 0o644); err != nil {
			fmt.Fprintln(os.Stderr, err)
			os.Exit(2)
		}
	case "numdist":
		res, err := distributor.RunHuge(*walks, *seed)
		if err != nil {
			fmt.Fprintln(os.Stderr, "numdist:", err)
			os.Exit(2)
		}
		b, _ := json.MarshalIndent(res, "", " ")
		if err := os.WriteFile(*out, b, 0o644); err != nil {
			fmt.Fprintln(os.Stderr, err)
			os.Exit(2)
		}
	case "numpools":
		res, err := vesting.RunHuge(*walks, *seed)
		if err != nil {
			fmt.Fprintln(os.Stderr, "numpools:", err)
			os.Exit(2)
		}
		b, _ := json.MarshalIndent(res, "", " ")
		if err := os.WriteFile(*out, b, 0o644); err != nil {
			fmt.Fprintln(os.Stderr, err)
			os.Exit(2)
		}
	case "numvesting":
		res, err := vesting.RunNumeric(*edges, *walks, *seed)
		if err != nil {
			fmt.Fprintln(os.Stderr, "numvesting:", err)
			os.Exit(2)
		}
		b, _ := json.MarshalIndent(res, "", " ")
		if err := os.WriteFile(*out, b, 0o644); err != nil {
			fmt.Fprintln(os.Stderr, err)
			os.Exit(2)
		}
	case "trace-distributor":
		st, err := distributor.RunTrace(*edges, *walks, *seed)
		if err != nil {
			fmt.Fprintln(os.Stderr, "trace-distributor:", err)
			os.Exit(2)
		}
		b, _ := json.MarshalIndent(st, "", " ")
		if err := os.WriteFile(*out, b, 0o644); err != nil {
			fmt.Fprintln(os.Stderr, err)
			os.Exit(2)
		}
	case "trace-vesting":
		st, err := vesting.RunTrace(*hdr, *edges, *walks, *seed)
		if err != nil {
			fmt.Fprintln(os.Stderr, "trace-vesting:", err)
			os.Exit(2)
		}
		b, _ := json.MarshalIndent(st, "", " ")
		if err := os.WriteFile(*out, b, 0o644); err != nil {
			fmt.Fprintln(os.Stderr, err)
			os.Exit(2)
		}
	case "trace-chain":
		st, err := chain.RunTrace(*hdr, *edges, *walks, *seed)
		if err != nil {
			fmt.Fprintln(os.Stderr, "trace-chain:", err)
			os.Exit(2)
		}
		b, _ := json.MarshalIndent(st, "", " ")
		if err := os.WriteFile(*out, b, 0o644); err != nil {
			fmt.Fprintln(os.Stderr, err)
			os.Exit(2)
		}
	case "trace-signature":
		st, err := signature.RunTrace(*hdr, *edges, *walks, *seed)
		if err != nil {
			fmt.Fprintln(os.Stderr, "trace-signature:", err)
			os.Exit(2)
		}
		b, _ := json.MarshalIndent(st, "", " ")
		if err := os.WriteFile(*out, b, 0o644); err != nil {
			fmt.Fprintln(os.Stderr, err)
			os.Exit(2)
		}
	case "trace-minter":
		st, err := minter.RunTrace(*edges, *walks, *seed)
		if err != nil {
			fmt.Fprintln(os.Stderr, "trace-minter:", err)
			os.Exit(2)
		}
		b, _ := json.MarshalIndent(st, "", " ")
		if err := os.WriteFile(*out, b, 0o644); err != nil {
			fmt.Fprintln(os.Stderr, err)
			os.Exit(2)
		}
	default:
		fmt.Fprintln(os.Stderr, "unknown command", cmd)
		os.Exit(2)
	}
}
