package vesting

// Pools at real magnitude (amounts around 2^63 and up to 10^30): create, send, withdraw (explicit and implicit in a
// send) on the real handlers with the C05 / C06 / C18 predicates evaluated on the real state - the part of the pool
// life-cycle that TLC's 32-bit integers cannot reach.

import (
	"fmt"
	"math/big"
	"math/rand"
	"time"

	vkeeper "github.com/chain4energy/c4e-chain/x/cfevesting/keeper"
	vtypes "github.com/chain4energy/c4e-chain/x/cfevesting/types"
	sdk "github.com/cosmos/cosmos-sdk/types"
	authtypes "github.com/cosmos/cosmos-sdk/x/auth/types"

	"verif/harness/env"
	"verif/harness/graph"
	"verif/harness/walk"
)

type HugeResult struct {
	Executed int            `json:"executed"`
	Samples  []graph.M      `json:"samples"`
	Findings []walk.Finding `json:"findings"`
	Kinds    map[string]int `json:"kinds"`
}

// RunHuge executes n pool life-cycles at real magnitude.
func RunHuge(n int, seed int64) (*HugeResult, error) {
	e := env.New(env.Options{BondDenom: "uc4e"})
	s := &state{env: e, P: 100, denoms: []string{"uc4e"}, vdenom: "uc4e"}
	app := e.App
	res := &HugeResult{Kinds: map[string]int{}}
	rng := rand.New(rand.NewSource(seed + 11))
	two63 := new(big.Int).Lsh(big.NewInt(1), 63)
	pow := func(k int64) *big.Int { return new(big.Int).Exp(big.NewInt(10), big.NewInt(k), nil) }
	amounts := []*big.Int{new(big.Int).Sub(two63, big.NewInt(1)), two63, new(big.Int).Add(two63, big.NewInt(1)), new(big.Int).Lsh(big.NewInt(1), 64),
		pow(19), pow(24), pow(30), new(big.Int).Mul(two63, big.NewInt(3)), big.NewInt(1000), new(big.Int).Div(two63, big.NewInt(2))}
	modAddr := authtypes.NewModuleAddress(vtypes.ModuleName)
	for i := 0; i < n; i++ {
		ctx := env.Fork(e.Ctx).WithBlockTime(env.T0)
		app.CfevestingKeeper.SetVestingTypes(ctx, vtypes.VestingTypes{VestingTypes: []*vtypes.VestingType{{Name: "hv", LockupPeriod: time.Hour, VestingPeriod: time.Hour, Free: sdk.ZeroDec()}}})
		owner := env.NewUser(fmt.Sprintf("huge-owner-%d", i)).Addr
		app.AccountKeeper.SetAccount(ctx, app.AccountKeeper.NewAccountWithAddress(ctx, owner))
		a1 := new(big.Int).Set(amounts[rng.Intn(len(amounts))])
		a2 := new(big.Int).Set(amounts[rng.Intn(len(amounts))])
		if rng.Intn(3) == 0 {
			a1.Add(a1, new(big.Int).Rand(rng, pow(12)))
		}
		total := new(big.Int).Add(a1, a2)
		s.fund(ctx, owner, "", sdk.NewCoins(sdk.NewCoin("uc4e", sdk.NewIntFromBigInt(total))))
		desc := graph.M{"short_pool": a1.String(), "long_pool": a2.String()}
		var fs []walk.Finding
		fail := func(prop, sig, msg string, ex, ob any) {
			fs = append(fs, walk.Finding{Prop: prop, Kind: "predicate", Sig: sig, Msg: msg, Path: []graph.M{desc}, Expected: ex, Observed: ob})
		}
		deliver := func(step string, msg sdk.Msg) (bool, *sdk.Result, []sdk.Event) {
			outcome, detail, _, r := e.Deliver(ctx, msg)
			if outcome == "panic" {
				fs = append(fs, walk.Finding{Prop: "C20", Kind: "panic", Sig: "huge.pools.panic." + step, Msg: step + " panicked at real magnitude: " + detail, Path: []graph.M{desc}})
				return false, nil, nil
			}
			if outcome != "ok" {
				fail("C05", "huge.pools.rejected."+step, step+" was rejected at real magnitude: "+detail, "ok", outcome)
				return false, nil, nil
			}
			return true, r, nil
		}
		backed := func(step string) {
			// C05 on the real state: module balance = sum over pools of (initially locked - sent - withdrawn); registered invariants
			sum := sdk.ZeroInt()
			for _, av := range app.CfevestingKeeper.GetAllAccountVestingPools(ctx) {
				for _, p := range av.VestingPools {
					sum = sum.Add(p.GetCurrentlyLocked())
					if p.Withdrawn.IsNegative() || p.Sent.IsNegative() || p.Withdrawn.Add(p.Sent).GT(p.InitiallyLocked) {
						fail("C05", "huge.pools.bounds."+step, "pool counters out of bounds after "+step, nil, fmt.Sprintf("%+v", *p))
					}
				}
			}
			if mb := app.BankKeeper.GetBalance(ctx, modAddr, "uc4e").Amount; !mb.Equal(sum) {
				fail("C05", "huge.pools.backed."+step, "module balance differs from the sum of the pools' locked remainders after "+step, sum.String(), mb.String())
			}
			if msg, broken := vkeeper.ModuleAccountInvariant(app.CfevestingKeeper)(ctx); broken {
				fail("C05", "huge.pools.invariant."+step, "registered module-account invariant broken after "+step+": "+msg, nil, nil)
			}
		}
		ok := true
		if ok, _, _ = deliver("createpool-short", &vtypes.MsgCreateVestingPool{Owner: owner.String(), Name: "short", Amount: sdk.NewIntFromBigInt(a1), Duration: time.Hour, VestingType: "hv"}); ok {
			// the long pool is locked for ten hours or for two and a half centuries (a legal duration; its lock end lies beyond what UnixNano can hold)
			longDur := 10 * time.Hour
			if rng.Intn(3) == 0 {
				longDur = 250 * 365 * 24 * time.Hour
				res.Kinds["lock-of-centuries"]++
			}
			ok, _, _ = deliver("createpool-long", &vtypes.MsgCreateVestingPool{Owner: owner.String(), Name: "long", Amount: sdk.NewIntFromBigInt(a2), Duration: longDur, VestingType: "hv"})
		}
		if ok {
			backed("createpool")
			// nothing withdrawable before lock end (C06)
			balBefore := app.BankKeeper.GetBalance(ctx, owner, "uc4e").Amount
			if ok, _, _ = deliver("withdraw-early", &vtypes.MsgWithdrawAllAvailable{Owner: owner.String()}); ok {
				if b := app.BankKeeper.GetBalance(ctx, owner, "uc4e").Amount; !b.Equal(balBefore) {
					fail("C06", "huge.pools.early-withdraw", "a withdrawal before any lock end paid something", balBefore.String(), b.String())
				}
			}
		}
		if ok {
			ctx = ctx.WithBlockTime(env.T0.Add(2 * time.Hour)) // the short pool has matured, the long one has not
			balBefore := app.BankKeeper.GetBalance(ctx, owner, "uc4e").Amount
			mode := rng.Intn(2)
			sent := sdk.ZeroInt()
			if mode == 0 {
				res.Kinds["explicit-withdraw"]++
				var r *sdk.Result
				if ok, r, _ = deliver("withdraw", &vtypes.MsgWithdrawAllAvailable{Owner: owner.String()}); ok && r != nil {
					// C18: one typed event per paying pool, carrying what that pool paid
					evs, perr := withdrawEvents(r.Events)
					if want := []string{"short:" + a1.String() + "uc4e"}; perr != nil || fmt.Sprint(evs) != fmt.Sprint(want) {
						fs = append(fs, walk.Finding{Prop: "C18", Kind: "predicate", Sig: "huge.pools.withdraw-events", Msg: "withdrawal events differ from what the matured pool paid", Path: []graph.M{desc}, Expected: want, Observed: evs})
					}
					for _, x := range r.MsgResponses {
						if wr, isw := x.GetCachedValue().(*vtypes.MsgWithdrawAllAvailableResponse); isw && !wr.Withdrawn.Amount.Equal(sdk.NewIntFromBigInt(a1)) {
							fail("C06", "huge.pools.withdraw-response", "withdraw response differs from the matured remainder", a1.String(), wr.Withdrawn.String())
						}
					}
				}
			} else {
				res.Kinds["implicit-withdraw-in-send"]++
				sent = sdk.NewIntFromBigInt(new(big.Int).Div(a2, big.NewInt(3)))
				if sent.IsZero() {
					sent = sdk.OneInt()
				}
				rcpt := env.NewUser(fmt.Sprintf("huge-rcpt-%d", i)).Addr
				ok, _, _ = deliver("send", &vtypes.MsgSendToVestingAccount{Owner: owner.String(), ToAddress: rcpt.String(), VestingPoolName: "long", Amount: sent, RestartVesting: rng.Intn(2) == 0})
			}
			if ok {
				if b := app.BankKeeper.GetBalance(ctx, owner, "uc4e").Amount; !b.Sub(balBefore).Equal(sdk.NewIntFromBigInt(a1)) {
					fail("C06", "huge.pools.matured-paid", "the owner did not receive exactly the matured pool's remainder", a1.String(), b.Sub(balBefore).String())
				}
				backed("withdraw")
				// a repeated withdrawal pays nothing
				b1 := app.BankKeeper.GetBalance(ctx, owner, "uc4e").Amount
				if ok2, _, _ := deliver("withdraw-again", &vtypes.MsgWithdrawAllAvailable{Owner: owner.String()}); ok2 {
					if b2 := app.BankKeeper.GetBalance(ctx, owner, "uc4e").Amount; !b2.Equal(b1) {
						fail("C06", "huge.pools.repeated-withdraw", "a repeated withdrawal paid again", b1.String(), b2.String())
					}
				}
				backed("withdraw-again")
			}
		}
		res.Executed++
		if len(res.Samples) < 5 {
			res.Samples = append(res.Samples, desc)
		}
		res.Findings = append(res.Findings, fs...)
	}
	return res, nil
}
