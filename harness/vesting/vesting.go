// Package vesting binds spec/Vesting.tla to x/cfevesting (plus the auth / bank / staking slice it uses).
package vesting

import (
	"fmt"
	"math/big"
	"sort"
	"strings"
	"time"

	dtypes "github.com/chain4energy/c4e-chain/x/cfedistributor/types"
	mtypes "github.com/chain4energy/c4e-chain/x/cfeminter/types"
	"github.com/chain4energy/c4e-chain/x/cfevesting"
	vkeeper "github.com/chain4energy/c4e-chain/x/cfevesting/keeper"
	vtypes "github.com/chain4energy/c4e-chain/x/cfevesting/types"
	sdk "github.com/cosmos/cosmos-sdk/types"
	authtypes "github.com/cosmos/cosmos-sdk/x/auth/types"
	vestingtypes "github.com/cosmos/cosmos-sdk/x/auth/vesting/types"
	stakingtypes "github.com/cosmos/cosmos-sdk/x/staking/types"
	abci "github.com/tendermint/tendermint/abci/types"

	"verif/harness/env"
	"verif/harness/graph"
	"verif/harness/walk"
)

type state struct {
	env     *env.Env
	P       int64
	denoms  []string
	vdenom  string
	addrs   []string
	addr    map[string]sdk.AccAddress
	name    map[string]string // bech32 -> model name
	vtypes  []graph.M
	setups  map[int64]graph.M
	blocked map[string]bool
}

func (s *state) tick(t time.Time) int64    { return t.Unix() - env.T0.Unix() }
func (s *state) time(tick int64) time.Time { return env.T0.Add(time.Duration(tick) * time.Second) }

func (s *state) bech(n string) string {
	if a, ok := s.addr[n]; ok {
		return a.String()
	}
	return n
}

func (s *state) dec(v any) sdk.Dec {
	r := big.NewRat(graph.Num(v), s.P)
	num := new(big.Int).Mul(r.Num(), big.NewInt(1000000000000000000))
	return sdk.NewDecFromBigIntWithPrec(new(big.Int).Quo(num, r.Denom()), 18)
}

func coinsOf(m graph.M) sdk.Coins {
	c := sdk.NewCoins()
	for d, a := range m {
		if n := graph.Num(a); n > 0 {
			c = c.Add(sdk.NewCoin(d, sdk.NewInt(n)))
		}
	}
	return c
}

// ---------------------------------------------------------------- projection

type poolObs struct {
	Name, VT                            string
	LockStart, LockEnd                  int64
	Init, Sent, Withdrawn, Withdrawable string
	Genesis                             bool
}
type acctObs struct {
	Kind       string
	OV         map[string]string
	Start, End int64
	DV, DF     string
	Raw        string // account number / sequence / public key: must never change for an existing account
}
type traceObs struct{ Genesis, FromPool, FromAcc bool }
type obs struct {
	Now     int64
	Bal     map[string]map[string]string
	ModBal  string
	Pools   map[string][]poolObs
	Acct    map[string]acctObs
	Traces  map[string]traceObs
	Locked  map[string]map[string]string
	VDenom  string
	Summary [2]map[string]string
	Err     string
}

func (s *state) project(ctx sdk.Context) obs {
	app := s.env.App
	k := app.CfevestingKeeper
	o := obs{Bal: map[string]map[string]string{}, Pools: map[string][]poolObs{}, Acct: map[string]acctObs{}, Traces: map[string]traceObs{}, Locked: map[string]map[string]string{}}
	o.Now = s.tick(ctx.BlockTime())
	pr, err := k.Params(sdk.WrapSDKContext(ctx), &vtypes.QueryParamsRequest{})
	if err != nil {
		o.Err = "params query: " + err.Error()
		return o
	}
	o.VDenom = pr.Params.Denom
	o.ModBal = app.BankKeeper.GetBalance(ctx, authtypes.NewModuleAddress(vtypes.ModuleName), o.VDenom).Amount.String()
	for _, n := range s.addrs {
		a := s.addr[n]
		for _, d := range s.denoms {
			if amt := app.BankKeeper.GetBalance(ctx, a, d).Amount; !amt.IsZero() {
				if o.Bal[n] == nil {
					o.Bal[n] = map[string]string{}
				}
				o.Bal[n][d] = amt.String()
			}
		}
		for _, c := range app.BankKeeper.LockedCoins(ctx, a) {
			if !c.IsZero() {
				if o.Locked[n] == nil {
					o.Locked[n] = map[string]string{}
				}
				o.Locked[n][c.Denom] = c.Amount.String()
			}
		}
		// pools: the query (with withdrawable) and the stored record (genesis flag, withdrawn)
		qr, err := k.VestingPools(sdk.WrapSDKContext(ctx), &vtypes.QueryVestingPoolsRequest{Owner: a.String()})
		stored, found := k.GetAccountVestingPools(ctx, a.String())
		if err == nil && found {
			if len(qr.VestingPools) != len(stored.VestingPools) {
				o.Err = "vesting pools query and store disagree on the number of pools"
				return o
			}
			for i, p := range qr.VestingPools {
				sp := stored.VestingPools[i]
				if p.InitiallyLocked.Denom != o.VDenom || p.CurrentlyLocked != sp.GetCurrentlyLocked().String() || p.SentAmount != sp.Sent.String() || p.Name != sp.Name {
					o.Err = "vesting pools query and store disagree"
					return o
				}
				o.Pools[n] = append(o.Pools[n], poolObs{p.Name, p.VestingType, s.tick(p.LockStart), s.tick(p.LockEnd), p.InitiallyLocked.Amount.String(), p.SentAmount,
					sp.Withdrawn.String(), p.Withdrawable, sp.GenesisPool})
			}
		} else if (err == nil) != found {
			o.Err = "vesting pools query and store disagree on existence"
			return o
		}
		acc := app.AccountKeeper.GetAccount(ctx, a)
		if acc != nil {
			ao := acctObs{OV: map[string]string{}, DV: "0", DF: "0"}
			pk := ""
			if acc.GetPubKey() != nil {
				pk = acc.GetPubKey().String()
			}
			ao.Raw = fmt.Sprintf("num=%d seq=%d pk=%s", acc.GetAccountNumber(), acc.GetSequence(), pk)
			switch v := acc.(type) {
			case *vestingtypes.ContinuousVestingAccount:
				ao.Kind = "cv"
				for _, c := range v.OriginalVesting {
					if !c.IsZero() {
						ao.OV[c.Denom] = c.Amount.String()
					}
				}
				ao.Start, ao.End = v.StartTime-env.T0.Unix(), v.EndTime-env.T0.Unix()
				ao.DV, ao.DF = v.DelegatedVesting.AmountOf(s.vdenom).String(), v.DelegatedFree.AmountOf(s.vdenom).String()
			case *vestingtypes.DelayedVestingAccount:
				ao.Kind = "delayed"
				for _, c := range v.OriginalVesting {
					if !c.IsZero() {
						ao.OV[c.Denom] = c.Amount.String()
					}
				}
				ao.Start, ao.End = 0, v.EndTime-env.T0.Unix()
				ao.DV, ao.DF = v.DelegatedVesting.AmountOf(s.vdenom).String(), v.DelegatedFree.AmountOf(s.vdenom).String()
			case *vestingtypes.PermanentLockedAccount:
				ao.Kind = "permlocked"
				for _, c := range v.OriginalVesting {
					if !c.IsZero() {
						ao.OV[c.Denom] = c.Amount.String()
					}
				}
				ao.Start, ao.End = 0, 0
				ao.DV, ao.DF = v.DelegatedVesting.AmountOf(s.vdenom).String(), v.DelegatedFree.AmountOf(s.vdenom).String()
			case *authtypes.BaseAccount:
				ao.Kind = "base"
			case *authtypes.ModuleAccount:
				ao.Kind = "module"
			default:
				ao.Kind = fmt.Sprintf("%T", acc)
			}
			o.Acct[n] = ao
		}
		if tr, ok := k.GetVestingAccountTrace(ctx, a.String()); ok {
			o.Traces[n] = traceObs{tr.Genesis, tr.FromGenesisPool, tr.FromGenesisAccount}
		}
	}
	s1, err := k.VestingsSummary(sdk.WrapSDKContext(ctx), &vtypes.QueryVestingsSummaryRequest{})
	if err != nil {
		o.Err = "summary query: " + err.Error()
		return o
	}
	s2, err := k.GenesisVestingsSummary(sdk.WrapSDKContext(ctx), &vtypes.QueryGenesisVestingsSummaryRequest{})
	if err != nil {
		o.Err = "genesis summary query: " + err.Error()
		return o
	}
	o.Summary[0] = map[string]string{"all": s1.VestingAllAmount.String(), "pools": s1.VestingInPoolsAmount.String(), "accounts": s1.VestingInAccountsAmount.String(), "delegated": s1.DelegatedVestingAmount.String()}
	o.Summary[1] = map[string]string{"all": s2.VestingAllAmount.String(), "pools": s2.VestingInPoolsAmount.String(), "accounts": s2.VestingInAccountsAmount.String(), "delegated": s2.DelegatedVestingAmount.String()}
	return o
}

func numStr(v any) string { return fmt.Sprint(graph.Num(v)) }

func coinStrMap(v any) map[string]map[string]string {
	out := map[string]map[string]string{}
	m, ok := v.(graph.M)
	if !ok {
		return out
	}
	for k, cv := range m {
		for d, a := range graph.Rec(cv) {
			if n := graph.Num(a); n != 0 {
				if out[k] == nil {
					out[k] = map[string]string{}
				}
				out[k][d] = fmt.Sprint(n)
			}
		}
	}
	return out
}

func eqCoinMaps(a, b map[string]map[string]string) (string, bool) {
	keys := map[string]bool{}
	for k := range a {
		keys[k] = true
	}
	for k := range b {
		keys[k] = true
	}
	var ks []string
	for k := range keys {
		ks = append(ks, k)
	}
	sort.Strings(ks)
	for _, k := range ks {
		ds := map[string]bool{}
		for d := range a[k] {
			ds[d] = true
		}
		for d := range b[k] {
			ds[d] = true
		}
		for d := range ds {
			x, y := a[k][d], b[k][d]
			if x == "" {
				x = "0"
			}
			if y == "" {
				y = "0"
			}
			if x != y {
				return fmt.Sprintf("%s/%s: model %s, real %s", k, d, x, y), false
			}
		}
	}
	return "", true
}

// diffs between the model post-state and the real projection, by field
func (s *state) diff(exp graph.M, o obs) map[string]string {
	d := map[string]string{}
	if o.Now != graph.Num(exp["now"]) {
		d["now"] = fmt.Sprintf("model %d real %d", graph.Num(exp["now"]), o.Now)
	}
	if msg, ok := eqCoinMaps(coinStrMap(exp["bal"]), o.Bal); !ok {
		d["bal"] = msg
	}
	if msg, ok := eqCoinMaps(coinStrMap(exp["locked"]), o.Locked); !ok {
		d["locked"] = msg
	}
	if numStr(exp["modBal"]) != o.ModBal {
		d["modBal"] = fmt.Sprintf("model %s real %s", numStr(exp["modBal"]), o.ModBal)
	}
	if graph.Str(exp["vdenom"]) != o.VDenom {
		d["vdenom"] = fmt.Sprintf("model %s real %s", graph.Str(exp["vdenom"]), o.VDenom)
	}
	// pools
	ep, _ := exp["pools"].(graph.M)
	for _, n := range s.addrs {
		el := graph.List(ep[n])
		rl := o.Pools[n]
		if len(el) != len(rl) {
			d["pools"] = fmt.Sprintf("%s: model has %d pools, real %d", n, len(el), len(rl))
			continue
		}
		for i, x := range el {
			p := graph.Rec(x)
			r := rl[i]
			if graph.Str(p["name"]) != r.Name || graph.Str(p["vt"]) != r.VT || graph.Num(p["lockStart"]) != r.LockStart || graph.Num(p["lockEnd"]) != r.LockEnd ||
				numStr(p["init"]) != r.Init || numStr(p["sent"]) != r.Sent || numStr(p["withdrawn"]) != r.Withdrawn || graph.Bool(p["genesis"]) != r.Genesis {
				d["pools"] = fmt.Sprintf("%s[%d]: model %v real %+v", n, i+1, p, r)
			}
			if numStr(p["withdrawable"]) != r.Withdrawable {
				d["withdrawable"] = fmt.Sprintf("%s/%s: model %s real %s", n, r.Name, numStr(p["withdrawable"]), r.Withdrawable)
			}
		}
	}
	// accounts
	ea, _ := exp["acct"].(graph.M)
	for _, n := range s.addrs {
		e, eok := ea[n].(graph.M)
		r, rok := o.Acct[n]
		if eok != rok {
			d["acct"] = fmt.Sprintf("%s: model exists=%v real exists=%v", n, eok, rok)
			continue
		}
		if !eok {
			continue
		}
		if graph.Str(e["kind"]) != r.Kind {
			d["acct"] = fmt.Sprintf("%s: model kind %s real %s", n, graph.Str(e["kind"]), r.Kind)
			continue
		}
		if r.Kind == "cv" || r.Kind == "delayed" || r.Kind == "permlocked" {
			eov := map[string]string{}
			for dn, a := range graph.Rec(e["ov"]) {
				if v := graph.Num(a); v != 0 {
					eov[dn] = fmt.Sprint(v)
				}
			}
			if fmt.Sprint(eov) != fmt.Sprint(r.OV) || graph.Num(e["start"]) != r.Start || graph.Num(e["end"]) != r.End || numStr(e["dv"]) != r.DV || numStr(e["df"]) != r.DF {
				d["acct"] = fmt.Sprintf("%s: model ov=%v start=%d end=%d dv=%s df=%s, real ov=%v start=%d end=%d dv=%s df=%s", n, eov, graph.Num(e["start"]), graph.Num(e["end"]),
					numStr(e["dv"]), numStr(e["df"]), r.OV, r.Start, r.End, r.DV, r.DF)
			}
		}
	}
	et, _ := exp["traces"].(graph.M)
	for _, n := range s.addrs {
		e, eok := et[n].(graph.M)
		r, rok := o.Traces[n]
		if eok != rok {
			d["traces"] = fmt.Sprintf("%s: model traced=%v real traced=%v", n, eok, rok)
		} else if eok && (graph.Bool(e["genesis"]) != r.Genesis || graph.Bool(e["fromPool"]) != r.FromPool || graph.Bool(e["fromAcc"]) != r.FromAcc) {
			d["traces"] = fmt.Sprintf("%s: model %v real %+v", n, e, r)
		}
	}
	for i, key := range []string{"summary", "gsummary"} {
		e := graph.Rec(exp[key])
		for _, f := range []string{"all", "pools", "accounts", "delegated"} {
			if numStr(e[f]) != o.Summary[i][f] {
				d[key] = fmt.Sprintf("%s: model %s real %s", f, numStr(e[f]), o.Summary[i][f])
			}
		}
	}
	return d
}

// ---------------------------------------------------------------- actions

func (s *state) fund(ctx sdk.Context, to sdk.AccAddress, module string, coins sdk.Coins) {
	if coins.IsZero() {
		return
	}
	bk := s.env.App.BankKeeper
	if err := bk.MintCoins(ctx, mtypes.ModuleName, coins); err != nil {
		panic(err)
	}
	var err error
	if module != "" {
		err = bk.SendCoinsFromModuleToModule(ctx, mtypes.ModuleName, module, coins)
	} else {
		err = bk.SendCoinsFromModuleToAccount(ctx, mtypes.ModuleName, to, coins)
	}
	if err != nil {
		panic(err)
	}
}

func (s *state) wipeStore(ctx sdk.Context) {
	store := ctx.KVStore(s.env.App.GetKey(vtypes.StoreKey))
	it := store.Iterator(nil, nil)
	var keys [][]byte
	for ; it.Valid(); it.Next() {
		keys = append(keys, append([]byte{}, it.Key()...))
	}
	it.Close()
	for _, k := range keys {
		store.Delete(k)
	}
}

func (s *state) genesisVTypes() []vtypes.GenesisVestingType {
	var out []vtypes.GenesisVestingType
	for _, vt := range s.vtypes {
		out = append(out, vtypes.GenesisVestingType{Name: graph.Str(vt["name"]), LockupPeriod: graph.Num(vt["lockup"]), LockupPeriodUnit: vtypes.Second,
			VestingPeriod: graph.Num(vt["vesting"]), VestingPeriodUnit: vtypes.Second, Free: s.dec(vt["free"])})
	}
	sort.Slice(out, func(i, j int) bool { return out[i].Name < out[j].Name })
	return out
}

func (s *state) configure(ctx sdk.Context, setup graph.M) error {
	app := s.env.App
	gen := vtypes.GenesisState{Params: vtypes.Params{Denom: s.vdenom}, VestingTypes: s.genesisVTypes()}
	// accounts
	accts, _ := setup["acct"].(graph.M)
	traces, _ := setup["traces"].(graph.M)
	for _, n := range s.addrs {
		a, ok := accts[n].(graph.M)
		if !ok {
			continue
		}
		switch graph.Str(a["kind"]) {
		case "cv":
			base := app.AccountKeeper.NewAccountWithAddress(ctx, s.addr[n]).(*authtypes.BaseAccount)
			ov := coinsOf(graph.Rec(a["ov"]))
			bva := vestingtypes.NewBaseVestingAccount(base, ov, env.T0.Unix()+graph.Num(a["end"]))
			app.AccountKeeper.SetAccount(ctx, vestingtypes.NewContinuousVestingAccountRaw(bva, env.T0.Unix()+graph.Num(a["start"])))
		case "delayed":
			base := app.AccountKeeper.NewAccountWithAddress(ctx, s.addr[n]).(*authtypes.BaseAccount)
			app.AccountKeeper.SetAccount(ctx, vestingtypes.NewDelayedVestingAccountRaw(vestingtypes.NewBaseVestingAccount(base, coinsOf(graph.Rec(a["ov"])), env.T0.Unix()+graph.Num(a["end"]))))
		case "permlocked":
			base := app.AccountKeeper.NewAccountWithAddress(ctx, s.addr[n]).(*authtypes.BaseAccount)
			app.AccountKeeper.SetAccount(ctx, vestingtypes.NewPermanentLockedAccount(base, coinsOf(graph.Rec(a["ov"]))))
		case "module":
			app.AccountKeeper.GetModuleAccount(ctx, dtypes.GreenEnergyBoosterCollector)
		case "base":
			if app.AccountKeeper.GetAccount(ctx, s.addr[n]) == nil {
				app.AccountKeeper.SetAccount(ctx, app.AccountKeeper.NewAccountWithAddress(ctx, s.addr[n]))
			}
		}
	}
	bals, _ := setup["bal"].(graph.M)
	for _, n := range s.addrs {
		if b, ok := bals[n].(graph.M); ok {
			s.fund(ctx, s.addr[n], "", coinsOf(b))
		}
	}
	var id uint64
	for _, n := range s.addrs {
		if t, ok := traces[n].(graph.M); ok {
			gen.VestingAccountTraces = append(gen.VestingAccountTraces, vtypes.VestingAccountTrace{Id: id, Address: s.addr[n].String(), Genesis: graph.Bool(t["genesis"]),
				FromGenesisPool: graph.Bool(t["fromPool"]), FromGenesisAccount: graph.Bool(t["fromAcc"])})
			id++
		}
	}
	gen.VestingAccountTraceCount = id
	pools, _ := setup["pools"].(graph.M)
	total := sdk.ZeroInt()
	for _, n := range s.addrs {
		pl := graph.List(pools[n])
		if len(pl) == 0 {
			continue
		}
		avp := &vtypes.AccountVestingPools{Owner: s.addr[n].String()}
		for _, x := range pl {
			p := graph.Rec(x)
			vp := &vtypes.VestingPool{Name: graph.Str(p["name"]), VestingType: graph.Str(p["vt"]), LockStart: s.time(graph.Num(p["lockStart"])), LockEnd: s.time(graph.Num(p["lockEnd"])),
				InitiallyLocked: sdk.NewInt(graph.Num(p["init"])), Withdrawn: sdk.NewInt(graph.Num(p["withdrawn"])), Sent: sdk.NewInt(graph.Num(p["sent"])), GenesisPool: graph.Bool(p["genesis"])}
			total = total.Add(vp.GetCurrentlyLocked())
			avp.VestingPools = append(avp.VestingPools, vp)
		}
		gen.AccountVestingPools = append(gen.AccountVestingPools, avp)
	}
	s.fund(ctx, nil, vtypes.ModuleName, sdk.NewCoins(sdk.NewCoin(s.vdenom, total)))
	if err := gen.Validate(); err != nil {
		return fmt.Errorf("genesis validate: %w", err)
	}
	s.wipeStore(ctx)
	if p := env.Try(func() {
		cfevesting.InitGenesis(ctx, app.CfevestingKeeper, gen, app.AccountKeeper, app.BankKeeper, app.StakingKeeper)
	}); p != "" {
		return fmt.Errorf("InitGenesis panicked: %s", p)
	}
	return nil
}

func (s *state) buildMsg(act graph.M) sdk.Msg {
	x := graph.Rec(act["x"])
	coinsFor := func(c graph.M, ds []any) sdk.Coins {
		// the denominations listed in the attempt, sorted, zero amounts kept (the message carries them)
		var names []string
		for _, d := range ds {
			names = append(names, graph.Str(d))
		}
		sort.Strings(names)
		out := sdk.Coins{}
		for _, d := range names {
			out = append(out, sdk.Coin{Denom: d, Amount: sdk.NewInt(graph.Num(c[d]))})
		}
		return out
	}
	switch graph.Str(act["name"]) {
	case "createpool":
		// (the owner of every pool with a four-tick lock is spelled in upper case, see "send")
		owner := s.bech(graph.Str(x["o"]))
		if _, known := s.addr[graph.Str(x["o"])]; known && graph.Num(x["dur"]) == 4 {
			owner = strings.ToUpper(owner)
		}
		return &vtypes.MsgCreateVestingPool{Owner: owner, Name: graph.Str(x["n"]), Amount: sdk.NewInt(graph.Num(act["amt"])),
			Duration: time.Duration(graph.Num(x["dur"])) * time.Second, VestingType: graph.Str(x["vt"])}
	case "withdraw":
		return &vtypes.MsgWithdrawAllAvailable{Owner: s.bech(graph.Str(x["o"]))}
	case "send":
		// addresses are abstract in the model; the harness spells the recipient of every restarted send in upper case (bech32
		// allows it, ValidateBasic accepts it): the same account, whatever the spelling in the message
		to := s.bech(graph.Str(x["to"]))
		if _, known := s.addr[graph.Str(x["to"])]; known && graph.Bool(x["restart"]) {
			to = strings.ToUpper(to)
		}
		return &vtypes.MsgSendToVestingAccount{Owner: s.bech(graph.Str(x["o"])), ToAddress: to, VestingPoolName: graph.Str(x["n"]),
			Amount: sdk.NewInt(graph.Num(act["amt"])), RestartVesting: graph.Bool(x["restart"])}
	case "createacc":
		return &vtypes.MsgCreateVestingAccount{FromAddress: s.bech(graph.Str(x["from"])), ToAddress: s.bech(graph.Str(x["to"])), Amount: coinsFor(graph.Rec(act["c"]), graph.List(x["ds"])),
			StartTime: env.T0.Unix() + graph.Num(act["s"]), EndTime: env.T0.Unix() + graph.Num(act["e"])}
	case "split":
		return &vtypes.MsgSplitVesting{FromAddress: s.bech(graph.Str(x["from"])), ToAddress: s.bech(graph.Str(x["to"])), Amount: coinsFor(graph.Rec(act["c"]), graph.List(x["ds"]))}
	case "move":
		return &vtypes.MsgMoveAvailableVesting{FromAddress: s.bech(graph.Str(x["from"])), ToAddress: s.bech(graph.Str(x["to"]))}
	case "movedenoms":
		var ds []string
		for _, d := range graph.List(x["ds"]) {
			ds = append(ds, graph.Str(d))
		}
		// the message lists denominations in any order: the harness sends them in descending order (the model's set has none)
		sort.Sort(sort.Reverse(sort.StringSlice(ds)))
		return &vtypes.MsgMoveAvailableVestingByDenoms{FromAddress: s.bech(graph.Str(x["from"])), ToAddress: s.bech(graph.Str(x["to"])), Denoms: ds}
	case "updatedenom":
		auth := graph.Str(act["auth"])
		if auth == "gov" {
			auth = env.Gov()
		} else if auth == "user" {
			auth = s.addr["o1"].String()
		}
		return &vtypes.MsgUpdateDenomParam{Authority: auth, Denom: graph.Str(act["d"])}
	}
	return nil
}

// which property owns a difference in a field, given the action
func owner(field, action string) string {
	switch field {
	case "pools", "modBal":
		return "C05"
	case "withdrawable":
		return "C06"
	case "traces", "summary", "gsummary":
		return "C17"
	case "vdenom":
		return "C13"
	case "now":
		return "C05"
	}
	switch action {
	case "split", "move", "movedenoms":
		return "C07"
	case "send", "createacc":
		return "C08"
	case "withdraw":
		return "C06"
	case "createpool":
		return "C05"
	case "export":
		return "C12"
	case "updatedenom":
		return "C13"
	case "delegate", "advance", "configure":
		return "C07"
	}
	return "C05"
}

func withdrawEvents(evs []abci.Event) ([]string, error) {
	var out []string
	for _, ev := range evs {
		if ev.Type != "chain4energy.c4echain.cfevesting.WithdrawAvailable" {
			continue
		}
		msg, err := sdk.ParseTypedEvent(ev)
		if err != nil {
			return nil, err
		}
		w := msg.(*vtypes.WithdrawAvailable)
		out = append(out, w.VestingPoolName+":"+w.Amount)
	}
	return out, nil
}

func apply(w *walk.Worker, ctx sdk.Context, e *graph.Edge, path []*graph.Edge, g *graph.Graph) (sdk.Context, []walk.Finding, bool) {
	s := w.State.(*state)
	app := s.env.App
	act := e.Act
	exp := g.States[e.To]
	name := graph.Str(act["name"])
	var fs []walk.Finding
	fail := func(prop, kind, sig, msg string, ex, ob any) {
		fs = append(fs, walk.Finding{Prop: prop, Kind: kind, Sig: sig, Msg: msg, Path: walk.PathActs(path), Expected: ex, Observed: ob})
	}
	w.Count("act." + name)
	isMsg := false
	var pre obs
	supplyBefore := map[string]string{}
	switch name {
	case "configure":
		ctx = ctx.WithBlockTime(env.T0)
		if err := s.configure(ctx, s.setups[graph.Num(act["setup"])]); err != nil {
			fail("C12", "panic", "vesting.configure", "genesis set-up failed: "+err.Error(), nil, nil)
			return ctx, fs, true
		}
	case "advance":
		ctx = ctx.WithBlockTime(ctx.BlockTime().Add(time.Duration(graph.Num(act["d"])) * time.Second)).WithBlockHeight(ctx.BlockHeight() + 1)
	case "delegate":
		val, found := app.StakingKeeper.GetValidator(ctx, s.env.ValAddr)
		if !found {
			panic("validator not found")
		}
		var err error
		if p := env.Try(func() {
			_, err = app.StakingKeeper.Delegate(ctx, s.addr[graph.Str(act["a"])], sdk.NewInt(graph.Num(act["amt"])), stakingtypes.Unbonded, val, true)
		}); p != "" || err != nil {
			fail("C07", "outcome", "vesting.delegate", fmt.Sprintf("delegation failed: %v %s", err, p), "ok", "failed")
			return ctx, fs, true
		}
	case "export":
		k := app.CfevestingKeeper
		var gen *vtypes.GenesisState
		if p := env.Try(func() { gen = cfevesting.ExportGenesis(ctx, k) }); p != "" {
			fail("C12", "panic", "vesting.export.panic", "ExportGenesis panicked: "+p, nil, p)
			return ctx, fs, true
		}
		if err := gen.Validate(); err != nil {
			fail("C12", "predicate", "vesting.export.invalid", "exported genesis does not validate: "+err.Error(), "valid", err.Error())
		}
		cdc := app.AppCodec()
		bz, err := cdc.MarshalJSON(gen)
		var gen2 vtypes.GenesisState
		if err == nil {
			err = cdc.UnmarshalJSON(bz, &gen2)
		}
		if err != nil {
			fail("C12", "predicate", "vesting.export.json", "exported genesis does not survive JSON: "+err.Error(), nil, nil)
			return ctx, fs, true
		}
		s.wipeStore(ctx)
		if p := env.Try(func() {
			cfevesting.InitGenesis(ctx, k, gen2, app.AccountKeeper, app.BankKeeper, app.StakingKeeper)
		}); p != "" {
			fail("C12", "panic", "vesting.import.panic", "InitGenesis of the exported state panicked: "+p, nil, p)
			return ctx, fs, true
		}
		// the accounts the module created must also pass x/auth's genesis validation (the application's exported genesis is
		// validated module by module): a continuous vesting account needs start < end
		for _, n := range s.addrs {
			cv, isCV := app.AccountKeeper.GetAccount(ctx, s.addr[n]).(*vestingtypes.ContinuousVestingAccount)
			if !isCV {
				continue
			}
			if verr := cv.Validate(); verr != nil {
				// is this the schedule the specification (i.e. the documentation) prescribes for that account, or another one?
				ma, _ := graph.Rec(exp["acct"])[n].(graph.M)
				sig := "vesting.export.auth-invalid.other"
				if ma != nil && graph.Str(ma["kind"]) == "cv" && graph.Num(ma["start"]) >= graph.Num(ma["end"]) && graph.Num(ma["start"]) == cv.StartTime-env.T0.Unix() && graph.Num(ma["end"]) == cv.EndTime-env.T0.Unix() {
					sig = "vesting.export.auth-invalid.documented-schedule"
				}
				fail("C12", "predicate", sig, "account "+n+" makes the exported auth genesis invalid: "+verr.Error(), "valid", fmt.Sprintf("start=%d end=%d", cv.StartTime-env.T0.Unix(), cv.EndTime-env.T0.Unix()))
			}
		}
		// the imported state must export to the very same genesis (ids, order, every field)
		if p := env.Try(func() {
			if bz3, err3 := cdc.MarshalJSON(cfevesting.ExportGenesis(ctx, k)); err3 != nil || string(bz3) != string(bz) {
				fail("C12", "mismatch", "vesting.reexport.differs", "the genesis exported after import differs from the one that was imported", string(bz), string(bz3))
			}
		}); p != "" {
			fail("C12", "panic", "vesting.reexport.panic", "ExportGenesis after import panicked: "+p, nil, p)
		}
	default:
		isMsg = true
		msg := s.buildMsg(act)
		pre = s.project(ctx)
		for _, d := range s.denoms {
			supplyBefore[d] = app.BankKeeper.GetSupply(ctx, d).Amount.String()
		}
		outcome, detail, events, res := s.env.Deliver(ctx, msg)
		w.Count("outcome." + name + "." + outcome)
		want := "rejected"
		if graph.Bool(act["ok"]) {
			want = "ok"
		}
		if outcome == "panic" {
			fail("C20", "panic", "vesting.panic."+name+"."+panicClass(act), "message panicked: "+detail, want, outcome)
			return ctx, fs, true
		}
		if outcome != want {
			fail(owner("", name), "outcome", "vesting.outcome."+name, "accept/reject differs from the model ("+detail+")", want, outcome)
			// the model has nothing more to say about this step, but the properties that can be evaluated on the
			// real state alone still are (solvency, supply, account integrity)
			for _, f := range s.direct(ctx, name, act, pre, supplyBefore, outcome == "ok") {
				f.Path = walk.PathActs(path)
				fs = append(fs, f)
			}
			if name == "updatedenom" && outcome == "ok" {
				// the denomination was changed although the specification refuses it (pools exist): can the pools still pay what
				// the pool query promises (C06)?  Every owner withdraws on a branch of the state
				pctx, _ := ctx.CacheContext()
				qs := sdk.WrapSDKContext(pctx)
				for _, n := range s.addrs {
					o := s.addr[n]
					qr, qerr := app.CfevestingKeeper.VestingPools(qs, &vtypes.QueryVestingPoolsRequest{Owner: o.String()})
					if qerr != nil || qr == nil {
						continue
					}
					promised := sdk.ZeroInt()
					for _, vp := range qr.VestingPools {
						if a, ok := sdk.NewIntFromString(vp.Withdrawable); ok {
							promised = promised.Add(a)
						}
					}
					if !promised.IsPositive() {
						continue
					}
					before := app.BankKeeper.GetAllBalances(pctx, o)
					oc, det, _, _ := s.env.Deliver(pctx, &vtypes.MsgWithdrawAllAvailable{Owner: o.String()})
					got := app.BankKeeper.GetAllBalances(pctx, o).Sub(before...)
					if oc != "ok" || len(got) != 1 || !got[0].Amount.Equal(promised) {
						fail("C06", "predicate", "vesting.withdraw-after-denom-update", "after a denomination update that the specification refuses, the pools of "+n+" no longer pay what the pool query reports as withdrawable ("+det+")", promised.String(), oc+" "+got.String())
					}
				}
			}
			return ctx, fs, true
		}
		if outcome == "ok" && (name == "withdraw" || name == "send") {
			out := graph.Rec(act["out"])
			var me []string
			for _, x := range graph.List(out["events"]) {
				ev := graph.Rec(x)
				me = append(me, graph.Str(ev["pool"])+":"+numStr(ev["amount"])+s.vdenom)
			}
			re, err := withdrawEvents(events)
			if err != nil {
				fail("C18", "predicate", "vesting.events.parse", "typed event cannot be parsed: "+err.Error(), nil, nil)
			} else if strings.Join(me, ",") != strings.Join(re, ",") {
				fail("C18", "mismatch", "vesting.events.withdraw", "withdrawal events differ from the per-pool amounts withdrawn", me, re)
			}
			if name == "withdraw" && res != nil {
				for _, r := range res.MsgResponses {
					if wr, ok := r.GetCachedValue().(*vtypes.MsgWithdrawAllAvailableResponse); ok {
						if wr.Withdrawn.Amount.String() != numStr(out["paid"]) {
							fail("C06", "mismatch", "vesting.withdraw.response", "withdraw response differs from the matured remainders", numStr(out["paid"]), wr.Withdrawn.String())
						}
					}
				}
			}
		}
	}
	o := s.project(ctx)
	if o.Err != "" {
		fail("C20", "panic", "vesting.query", o.Err, nil, nil)
		return ctx, fs, true
	}
	if isMsg {
		for _, f := range s.direct(ctx, name, act, pre, supplyBefore, graph.Bool(act["ok"])) {
			f.Path = walk.PathActs(path)
			fs = append(fs, f)
		}
	} else if name != "configure" {
		fs = append(fs, s.invariants(ctx)...)
	}
	for field, msg := range s.diff(exp, o) {
		fail(owner(field, name), "mismatch", "vesting."+field+"."+name, field+" differs from the model: "+msg, nil, nil)
	}
	return ctx, fs, len(fs) > 0
}

// invariants: the module's registered invariants as a second opinion on C05
func (s *state) invariants(ctx sdk.Context) []walk.Finding {
	app := s.env.App
	var fs []walk.Finding
	for iname, inv := range map[string]sdk.Invariant{"module-account": vkeeper.ModuleAccountInvariant(app.CfevestingKeeper),
		"nonnegative": vkeeper.NonNegativeVestingPoolAmountsInvariant(app.CfevestingKeeper), "consistent": vkeeper.VestingPoolConsistentDataInvariant(app.CfevestingKeeper)} {
		if msg, broken := inv(ctx); broken {
			fs = append(fs, walk.Finding{Prop: "C05", Kind: "predicate", Sig: "vesting.invariant." + iname, Msg: "registered invariant broken: " + msg})
		}
	}
	return fs
}

// direct evaluates, on the real state alone, the properties that need no model: supply neutrality (C01),
// pool solvency and rejected-message neutrality (C05), integrity of existing accounts (C09).
func (s *state) direct(ctx sdk.Context, name string, act graph.M, pre obs, supplyBefore map[string]string, accepted bool) []walk.Finding {
	app := s.env.App
	var fs []walk.Finding
	fail := func(prop, kind, sig, msg string, ex, ob any) {
		fs = append(fs, walk.Finding{Prop: prop, Kind: kind, Sig: sig, Msg: msg, Expected: ex, Observed: ob})
	}
	o := s.project(ctx)
	if o.Err != "" {
		return fs
	}
	for _, d := range s.denoms {
		if after := app.BankKeeper.GetSupply(ctx, d).Amount.String(); after != supplyBefore[d] {
			fail("C01", "predicate", "vesting.supply."+name, "a vesting message changed the total supply of "+d, supplyBefore[d], after)
		}
	}
	if !accepted && fmt.Sprintf("%+v", pre) != fmt.Sprintf("%+v", o) {
		fail("C05", "predicate", "vesting.rejected-changed."+name, "a rejected message changed the state", fmt.Sprintf("%+v", pre), fmt.Sprintf("%+v", o))
	}
	for n, before := range pre.Acct {
		after, ok := o.Acct[n]
		allowed := false
		if (name == "split" || name == "move" || name == "movedenoms") && accepted && n == graph.Str(graph.Rec(act["x"])["from"]) {
			b2 := before
			b2.OV = after.OV
			allowed = fmt.Sprintf("%+v", b2) == fmt.Sprintf("%+v", after)
		}
		if !ok || (fmt.Sprintf("%+v", before) != fmt.Sprintf("%+v", after) && !allowed) {
			fail("C09", "predicate", "vesting.account-altered."+name, "an existing account was replaced or altered: "+n, fmt.Sprintf("%+v", before), fmt.Sprintf("%+v", after))
		}
	}
	fs = append(fs, s.invariants(ctx)...)
	return fs
}

func panicClass(act graph.M) string {
	x := graph.Rec(act["x"])
	if graph.Str(act["name"]) == "createacc" && graph.Str(x["from"]) == graph.Str(x["to"]) {
		return "same-address"
	}
	return "other"
}

func Run(file string, workers int, budget time.Duration, walks, depth int, seed int64) (*walk.Result, error) {
	g, err := graph.Load(file, "configure")
	if err != nil {
		return nil, err
	}
	meta := graph.Rec(g.Header["meta"])
	var denoms []string
	for _, d := range graph.List(meta["Denoms"]) {
		denoms = append(denoms, graph.Str(d))
	}
	sort.Strings(denoms)
	var addrs []string
	for _, a := range graph.List(meta["Addrs"]) {
		addrs = append(addrs, graph.Str(a))
	}
	sort.Strings(addrs)
	var vts []graph.M
	for _, v := range graph.List(g.Header["vtypes"]) {
		vts = append(vts, graph.Rec(v))
	}
	setups := map[int64]graph.M{}
	for _, v := range graph.Rec(g.Header["setups"]) {
		sm := graph.Rec(v)
		setups[graph.Num(sm["id"])] = sm
	}
	newWorker := func(id int) (*walk.Worker, sdk.Context) {
		e := env.New(env.Options{BondDenom: graph.Str(meta["VDenom"])})
		st := &state{env: e, P: graph.Num(meta["P"]), denoms: denoms, vdenom: graph.Str(meta["VDenom"]), addrs: addrs, addr: map[string]sdk.AccAddress{}, name: map[string]string{},
			vtypes: vts, setups: setups, blocked: map[string]bool{}}
		for _, n := range addrs {
			if n == "mod" {
				st.addr[n] = authtypes.NewModuleAddress(dtypes.GreenEnergyBoosterCollector)
			} else {
				st.addr[n] = env.NewUser(n).Addr
			}
			st.name[st.addr[n].String()] = n
		}
		return &walk.Worker{ID: id, State: st, Counters: map[string]int{}}, e.Ctx
	}
	res := walk.Run(walk.Config{G: g, Workers: workers, NewWorker: newWorker, Budget: budget, Walks: walks, WalkDepth: depth, Seed: seed,
		Apply: func(w *walk.Worker, ctx sdk.Context, e *graph.Edge, path []*graph.Edge) (sdk.Context, []walk.Finding, bool) {
			return apply(w, ctx, e, path, g)
		}})
	for i, e := range g.Edges {
		if i%(len(g.Edges)/5+1) == 0 {
			res.Samples = append(res.Samples, graph.M{"act": e.Act, "post": g.States[e.To]})
		}
	}
	return res, nil
}
