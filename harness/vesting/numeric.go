package vesting

// Numeric stage for C07 / C08: single steps of the real code at real magnitudes (amounts up to 10^30,
// 18-digit decimals).  The inputs are directed by the model: every small-P case in which TLC finds the
// rounding variant of the split arithmetic inexact is lifted to P = 10^18, next to structured families
// and a seeded random remainder.  The C07 / C08 predicates are evaluated directly on the real results and
// every step is recorded so that Apalache can check it against spec/VestingMath.tla at P = 10^18.

import (
	"bufio"
	"encoding/json"
	"fmt"
	"math/big"
	"math/rand"
	"os"
	"strings"
	"time"

	vtypes "github.com/chain4energy/c4e-chain/x/cfevesting/types"
	sdk "github.com/cosmos/cosmos-sdk/types"
	authtypes "github.com/cosmos/cosmos-sdk/x/auth/types"
	vestingtypes "github.com/cosmos/cosmos-sdk/x/auth/vesting/types"

	"verif/harness/env"
	"verif/harness/graph"
	"verif/harness/walk"
)

type SplitStep struct {
	OV     string `json:"ov"`
	X      int64  `json:"x"` // block time - start (seconds)
	Y      int64  `json:"y"` // end - start (seconds)
	U      string `json:"u"`
	OVNew  string `json:"ov_new"`
	Source string `json:"source"`
}

type SendStep struct {
	Amount string `json:"amount"`
	Free   string `json:"free"` // 18-digit decimal as integer
	OV     string `json:"ov"`
}

type NumResult struct {
	Splits   []SplitStep    `json:"splits"`
	Sends    []SendStep     `json:"sends"`
	Findings []walk.Finding `json:"findings"`
	Executed int            `json:"executed"`
	Rejected int            `json:"rejected"`
	Sources  map[string]int `json:"sources"`
}

type splitCase struct {
	ov     *big.Int
	x, y   int64
	u      *big.Int // nil: choose relative to locked
	urel   string
	source string
}

func pow10(n int) *big.Int { return new(big.Int).Exp(big.NewInt(10), big.NewInt(int64(n)), nil) }

func readWitnesses(file string) ([][4]int64, int64, error) {
	f, err := os.Open(file)
	if err != nil {
		return nil, 0, err
	}
	defer f.Close()
	sc := bufio.NewScanner(f)
	sc.Buffer(make([]byte, 1<<20), 1<<26)
	for sc.Scan() {
		line := sc.Bytes()
		if len(line) == 0 || line[0] != '"' {
			continue
		}
		var s string
		if json.Unmarshal(line, &s) != nil || !strings.Contains(s, "witnesses") {
			continue
		}
		var rec struct {
			Witnesses [][4]int64 `json:"witnesses"`
			P         int64      `json:"P"`
		}
		if err := json.Unmarshal([]byte(s), &rec); err != nil {
			return nil, 0, err
		}
		return rec.Witnesses, rec.P, nil
	}
	return nil, 0, fmt.Errorf("no witnesses line in %s", file)
}

func (s *state) splitCases(wit [][4]int64, P int64, n int, seed int64) []splitCase {
	var cs []splitCase
	F := new(big.Int).Quo(pow10(18), big.NewInt(P))
	// 1. model counterexamples lifted to real scale: ov*F + small offsets, same time fraction, same small u
	for _, w := range wit {
		for d := int64(-3); d <= 3; d++ {
			ov := new(big.Int).Mul(big.NewInt(w[0]), F)
			ov.Add(ov, big.NewInt(d))
			for _, scale := range []int64{1, 1000} {
				cs = append(cs, splitCase{ov: ov, x: w[1] * scale, y: w[2] * scale, u: big.NewInt(w[3]), source: "lifted"})
			}
		}
	}
	// 2. structured families
	fracs := [][2]int64{{1, 2}, {1, 4}, {3, 4}, {1, 5}, {1, 3}, {2, 3}, {1, 1000}, {999, 1000}, {501, 1000}, {0, 10}, {10, 10}, {7, 13}}
	var ovs []*big.Int
	for _, base := range []*big.Int{pow10(18), new(big.Int).Mul(big.NewInt(4), pow10(18)), new(big.Int).Mul(big.NewInt(9), pow10(18)), pow10(24), pow10(30), big.NewInt(1999), big.NewInt(1), big.NewInt(2), big.NewInt(1000000)} {
		for d := int64(-2); d <= 2; d++ {
			v := new(big.Int).Add(base, big.NewInt(d))
			if v.Sign() > 0 {
				ovs = append(ovs, v)
			}
		}
	}
	for _, ov := range ovs {
		for _, fr := range fracs {
			for _, ur := range []string{"one", "two", "ten", "half", "all", "allm1"} {
				cs = append(cs, splitCase{ov: ov, x: fr[0] * 100, y: fr[1] * 100, urel: ur, source: "structured"})
			}
		}
	}
	// 3. seeded random remainder
	rng := rand.New(rand.NewSource(seed))
	for len(cs) < n {
		digits := 1 + rng.Intn(30)
		ov := new(big.Int).Rand(rng, pow10(digits))
		ov.Add(ov, big.NewInt(1))
		y := int64(2 + rng.Intn(100000))
		x := int64(rng.Intn(int(y) + 1))
		cs = append(cs, splitCase{ov: ov, x: x, y: y, urel: []string{"one", "half", "all", "rand"}[rng.Intn(4)], source: "random"})
	}
	// keep the directed cases and fill up to n with a seeded selection of the rest
	if len(cs) > n {
		lifted := 0
		for _, c := range cs {
			if c.source == "lifted" {
				lifted++
			}
		}
		rest := cs[lifted:]
		rng.Shuffle(len(rest), func(i, j int) { rest[i], rest[j] = rest[j], rest[i] })
		if n < lifted {
			n = lifted
		}
		cs = append(cs[:lifted], rest[:n-lifted]...)
	}
	return cs
}

func resolveU(rel string, locked *big.Int, rng *rand.Rand) *big.Int {
	switch rel {
	case "one":
		return big.NewInt(1)
	case "two":
		return big.NewInt(2)
	case "ten":
		return big.NewInt(10)
	case "half":
		return new(big.Int).Quo(locked, big.NewInt(2))
	case "all":
		return new(big.Int).Set(locked)
	case "allm1":
		return new(big.Int).Sub(locked, big.NewInt(1))
	}
	if locked.Sign() <= 0 {
		return big.NewInt(1)
	}
	return new(big.Int).Add(new(big.Int).Rand(rng, locked), big.NewInt(1))
}

// RunNumeric executes the numeric steps; file is the TLC output of MC_Split (witness line).
func RunNumeric(file string, n int, seed int64) (*NumResult, error) {
	wit, P, err := readWitnesses(file)
	if err != nil {
		return nil, err
	}
	e := env.New(env.Options{BondDenom: "uc4e"})
	s := &state{env: e, P: P, denoms: []string{"uc4e"}, vdenom: "uc4e"}
	res := &NumResult{Sources: map[string]int{}}
	rng := rand.New(rand.NewSource(seed + 7))
	app := e.App
	fail := func(sig, msg string, c any, ex, ob any) {
		res.Findings = append(res.Findings, walk.Finding{Prop: "C07", Kind: "predicate", Sig: sig, Msg: msg, Path: []graph.M{{"case": c}}, Expected: ex, Observed: ob})
	}
	for i, c := range s.splitCases(wit, P, n, seed) {
		ctx := env.Fork(e.Ctx)
		from := env.NewUser(fmt.Sprintf("num-from-%d", i)).Addr
		to := env.NewUser(fmt.Sprintf("num-to-%d", i)).Addr
		start := env.T0.Unix()
		ovc := sdk.NewCoins(sdk.NewCoin("uc4e", sdk.NewIntFromBigInt(c.ov)))
		base := app.AccountKeeper.NewAccountWithAddress(ctx, from).(*authtypes.BaseAccount)
		app.AccountKeeper.SetAccount(ctx, vestingtypes.NewContinuousVestingAccountRaw(vestingtypes.NewBaseVestingAccount(base, ovc, start+c.y), start))
		s.fund(ctx, from, "", ovc)
		ctx = ctx.WithBlockTime(time.Unix(start+c.x, 0))
		lockedBefore := app.BankKeeper.LockedCoins(ctx, from).AmountOf("uc4e").BigInt()
		spendBefore := app.BankKeeper.SpendableCoins(ctx, from).AmountOf("uc4e").BigInt()
		u := c.u
		if u == nil {
			u = resolveU(c.urel, lockedBefore, rng)
		}
		if u.Sign() <= 0 || u.Cmp(lockedBefore) > 0 {
			res.Rejected++
			continue
		}
		desc := map[string]any{"ov": c.ov.String(), "x": c.x, "y": c.y, "u": u.String(), "source": c.source}
		// schedule of the sender alone, at a few later instants, before the split
		times := []int64{start + c.x, start + (c.x+c.y)/2, start + c.y - 1, start + c.y, start + c.y + 1}
		accBefore := app.AccountKeeper.GetAccount(ctx, from).(*vestingtypes.ContinuousVestingAccount)
		var soloVesting []*big.Int
		for _, t := range times {
			soloVesting = append(soloVesting, accBefore.GetVestingCoins(time.Unix(t, 0)).AmountOf("uc4e").BigInt())
		}
		outcome, detail, _, _ := e.Deliver(ctx, &vtypes.MsgSplitVesting{FromAddress: from.String(), ToAddress: to.String(), Amount: sdk.NewCoins(sdk.NewCoin("uc4e", sdk.NewIntFromBigInt(u)))})
		if outcome == "panic" {
			res.Findings = append(res.Findings, walk.Finding{Prop: "C20", Kind: "panic", Sig: "num.split.panic", Msg: "split panicked at real magnitude: " + detail, Path: []graph.M{{"case": desc}}})
			continue
		}
		if outcome != "ok" {
			fail("num.split.liveness", "a split of an amount within the locked coins was rejected: "+detail, desc, "ok", outcome)
			continue
		}
		res.Executed++
		res.Sources[c.source]++
		lockedAfter := app.BankKeeper.LockedCoins(ctx, from).AmountOf("uc4e").BigInt()
		spendAfter := app.BankKeeper.SpendableCoins(ctx, from).AmountOf("uc4e").BigInt()
		accFrom := app.AccountKeeper.GetAccount(ctx, from).(*vestingtypes.ContinuousVestingAccount)
		accTo, _ := app.AccountKeeper.GetAccount(ctx, to).(*vestingtypes.ContinuousVestingAccount)
		res.Splits = append(res.Splits, SplitStep{OV: c.ov.String(), X: c.x, Y: c.y, U: u.String(), OVNew: accFrom.OriginalVesting.AmountOf("uc4e").String(), Source: c.source})
		if d := new(big.Int).Sub(lockedBefore, lockedAfter); d.Cmp(u) != 0 {
			fail("num.split.inexact", "split reduced the sender's locked coins by something else than the requested amount", desc, u.String(), d.String())
		}
		if spendBefore.Cmp(spendAfter) != 0 {
			fail("num.split.spendable", "split changed the sender's spendable balance", desc, spendBefore.String(), spendAfter.String())
		}
		if accTo == nil {
			fail("num.split.recipient", "recipient is not a continuous vesting account", desc, nil, nil)
			continue
		}
		wantStart := start
		if start+c.x > wantStart {
			wantStart = start + c.x
		}
		if l := app.BankKeeper.LockedCoins(ctx, to).AmountOf("uc4e").BigInt(); l.Cmp(u) != 0 || accTo.EndTime != start+c.y || accTo.StartTime != wantStart {
			fail("num.split.recipient", "recipient locked coins / schedule differ from the documented ones", desc, fmt.Sprintf("locked %s start %d end %d", u, wantStart, start+c.y), fmt.Sprintf("locked %s start %d end %d", l, accTo.StartTime, accTo.EndTime))
		}
		for k, t := range times {
			sum := new(big.Int).Add(accFrom.GetVestingCoins(time.Unix(t, 0)).AmountOf("uc4e").BigInt(), accTo.GetVestingCoins(time.Unix(t, 0)).AmountOf("uc4e").BigInt())
			if d := new(big.Int).Sub(sum, soloVesting[k]); d.CmpAbs(big.NewInt(3)) > 0 {
				// the SDK computes the vested fraction with 18 decimals: for amounts above 10^18 each account's
				// schedule is only exact up to amount * 10^-18 units
				bound := new(big.Int).Quo(c.ov, pow10(18))
				bound.Mul(bound, big.NewInt(2))
				bound.Add(bound, big.NewInt(5))
				sig := "num.split.drift"
				if d.CmpAbs(bound) <= 0 {
					sig = "num.split.drift.sdk-precision"
				}
				fail(sig, fmt.Sprintf("at t=start+%d the two accounts together vest %s more than the sender alone would", t-start, d), desc, soloVesting[k].String(), sum.String())
				break
			}
		}
	}
	// C08: amount subject to vesting for pools sends at real magnitude (free fractions with 18 digits)
	one := pow10(18)
	for i := 0; i < n/4; i++ {
		amt := new(big.Int).Rand(rng, pow10(1+rng.Intn(36)))
		free := new(big.Int).Rand(rng, new(big.Int).Add(one, big.NewInt(1)))
		switch i % 5 {
		case 0:
			free = big.NewInt(0)
		case 1:
			free = new(big.Int).Set(one)
		case 2:
			free = new(big.Int).Quo(one, big.NewInt(20))
		}
		ctx := env.Fork(e.Ctx)
		owner := env.NewUser(fmt.Sprintf("num-owner-%d", i)).Addr
		rcpt := env.NewUser(fmt.Sprintf("num-rcpt-%d", i)).Addr
		app.AccountKeeper.SetAccount(ctx, app.AccountKeeper.NewAccountWithAddress(ctx, owner))
		coins := sdk.NewCoins(sdk.NewCoin("uc4e", sdk.NewIntFromBigInt(amt)))
		s.fund(ctx, owner, "", coins)
		// periods from an hour to two centuries (each legal on its own; their sum exceeds what one time.Duration holds)
		periods := []time.Duration{time.Hour, 365 * 24 * time.Hour, 36500 * 24 * time.Hour, 73000 * 24 * time.Hour, 100000 * 24 * time.Hour}
		lockup, vperiod := periods[rng.Intn(len(periods))], periods[rng.Intn(len(periods))]
		app.CfevestingKeeper.SetVestingType(ctx, vtypes.VestingType{Name: "numvt", LockupPeriod: lockup, VestingPeriod: vperiod, Free: sdk.NewDecFromBigIntWithPrec(free, 18)})
		if o, d, _, _ := e.Deliver(ctx, &vtypes.MsgCreateVestingPool{Owner: owner.String(), Name: "p", Amount: sdk.NewIntFromBigInt(amt), Duration: time.Hour, VestingType: "numvt"}); o != "ok" {
			res.Findings = append(res.Findings, walk.Finding{Prop: "C08", Kind: "outcome", Sig: "num.send.createpool", Msg: "pool creation at real magnitude failed: " + d})
			continue
		}
		if o, d, _, _ := e.Deliver(ctx, &vtypes.MsgSendToVestingAccount{Owner: owner.String(), ToAddress: rcpt.String(), VestingPoolName: "p", Amount: sdk.NewIntFromBigInt(amt), RestartVesting: true}); o != "ok" {
			res.Findings = append(res.Findings, walk.Finding{Prop: "C08", Kind: "outcome", Sig: "num.send.rejected", Msg: "send of the exact remainder at real magnitude failed: " + d})
			continue
		}
		acc, ok := app.AccountKeeper.GetAccount(ctx, rcpt).(*vestingtypes.ContinuousVestingAccount)
		if !ok {
			continue
		}
		res.Sends = append(res.Sends, SendStep{Amount: amt.String(), Free: free.String(), OV: acc.OriginalVesting.AmountOf("uc4e").String()})
		// C08: a restarted send vests between block time + lockup and block time + lockup + vesting period
		if wantS, wantE := ctx.BlockTime().Add(lockup).Unix(), ctx.BlockTime().Add(lockup).Add(vperiod).Unix(); acc.StartTime != wantS || acc.EndTime != wantE {
			res.Findings = append(res.Findings, walk.Finding{Prop: "C08", Kind: "predicate", Sig: "num.send.schedule", Msg: fmt.Sprintf("restarted send with lockup %s and vesting period %s: schedule differs from block time + lockup .. + vesting period", lockup, vperiod),
				Expected: fmt.Sprintf("%d..%d", wantS, wantE), Observed: fmt.Sprintf("%d..%d", acc.StartTime, acc.EndTime)})
		}
		if b := app.BankKeeper.GetBalance(ctx, rcpt, "uc4e").Amount.BigInt(); b.Cmp(amt) != 0 {
			res.Findings = append(res.Findings, walk.Finding{Prop: "C08", Kind: "predicate", Sig: "num.send.amount", Msg: "recipient did not receive exactly the requested amount", Expected: amt.String(), Observed: b.String()})
		}
	}
	return res, nil
}
