package vesting

// Trace recording (implementation -> specification) for cfevesting: long random message histories on the
// real message router, one ndjson event per step with the projected state; spec/trace/Trace_Vesting.tla
// validates the log against the actions, invariants and action properties of Vesting.tla.

import (
	"encoding/json"
	"fmt"
	"math/rand"
	"os"
	"sort"
	"strconv"
	"time"

	vtypes "github.com/chain4energy/c4e-chain/x/cfevesting/types"
	sdk "github.com/cosmos/cosmos-sdk/types"
	authtypes "github.com/cosmos/cosmos-sdk/x/auth/types"
	stakingtypes "github.com/cosmos/cosmos-sdk/x/staking/types"

	dtypes "github.com/chain4energy/c4e-chain/x/cfedistributor/types"

	"verif/harness/env"
	"verif/harness/graph"
)

type TraceStats struct {
	Traces   int            `json:"traces"`
	Events   int            `json:"events"`
	Messages map[string]int `json:"messages"` // "<type>.<ok|rejected>"
	Sample   []graph.M      `json:"sample"`
	Panics   []string       `json:"panics,omitempty"`
}

func min64(a, b int64) int64 {
	if a < b {
		return a
	}
	return b
}

func atoi(s string) int64 {
	n, _ := strconv.ParseInt(s, 10, 64)
	return n
}

func (s *state) postOf(o obs) graph.M {
	bal := graph.M{}
	for a, m := range o.Bal {
		cm := graph.M{}
		for d, v := range m {
			cm[d] = atoi(v)
		}
		bal[a] = cm
	}
	locked := graph.M{}
	for a, m := range o.Locked {
		cm := graph.M{}
		for d, v := range m {
			cm[d] = atoi(v)
		}
		locked[a] = cm
	}
	acct := graph.M{}
	for a, x := range o.Acct {
		ov := graph.M{}
		for d, v := range x.OV {
			ov[d] = atoi(v)
		}
		acct[a] = graph.M{"kind": x.Kind, "ov": ov, "start": x.Start, "end": x.End, "dv": atoi(x.DV), "df": atoi(x.DF)}
	}
	pools := graph.M{}
	for a, ps := range o.Pools {
		var l []any
		for _, p := range ps {
			l = append(l, graph.M{"name": p.Name, "init": atoi(p.Init), "sent": atoi(p.Sent), "withdrawn": atoi(p.Withdrawn), "lockEnd": p.LockEnd, "genesis": p.Genesis})
		}
		pools[a] = l
	}
	traces := graph.M{}
	for a, t := range o.Traces {
		traces[a] = graph.M{"genesis": t.Genesis, "fromPool": t.FromPool, "fromAcc": t.FromAcc}
	}
	sum := func(m map[string]string) graph.M {
		return graph.M{"all": atoi(m["all"]), "pools": atoi(m["pools"]), "accounts": atoi(m["accounts"]), "delegated": atoi(m["delegated"])}
	}
	return graph.M{"vdenom": o.VDenom, "bal": bal, "modBal": atoi(o.ModBal), "locked": locked, "acct": acct, "pools": pools, "traces": traces, "summary": sum(o.Summary[0]), "gsummary": sum(o.Summary[1])}
}

// RunTrace records n executions into out; hdr is a TLC output holding the header lines (meta, vesting types, set-ups).
func RunTrace(hdr, out string, n int, seed int64) (*TraceStats, error) {
	g, err := graph.Load(hdr, "configure")
	if err != nil {
		return nil, err
	}
	meta := graph.Rec(g.Header["meta"])
	var addrs []string
	for _, a := range graph.List(meta["Addrs"]) {
		addrs = append(addrs, graph.Str(a))
	}
	sort.Strings(addrs)
	var vts []graph.M
	var vtNames []string
	for _, v := range graph.List(g.Header["vtypes"]) {
		vts = append(vts, graph.Rec(v))
		vtNames = append(vtNames, graph.Str(graph.Rec(v)["name"]))
	}
	sort.Strings(vtNames)
	setups := map[int64]graph.M{}
	var setupIds []int64
	for _, v := range graph.Rec(g.Header["setups"]) {
		sm := graph.Rec(v)
		setups[graph.Num(sm["id"])] = sm
		setupIds = append(setupIds, graph.Num(sm["id"]))
	}
	sort.Slice(setupIds, func(i, j int) bool { return setupIds[i] < setupIds[j] })
	e := env.New(env.Options{BondDenom: graph.Str(meta["VDenom"])})
	var denoms []string
	for _, d := range graph.List(meta["Denoms"]) {
		denoms = append(denoms, graph.Str(d))
	}
	sort.Strings(denoms)
	s := &state{env: e, P: graph.Num(meta["P"]), denoms: denoms, vdenom: "uc4e", addrs: addrs, addr: map[string]sdk.AccAddress{}, name: map[string]string{}, vtypes: vts, setups: setups}
	for _, nme := range addrs {
		if nme == "mod" {
			s.addr[nme] = authtypes.NewModuleAddress(dtypes.GreenEnergyBoosterCollector)
		} else {
			s.addr[nme] = env.NewUser(nme).Addr
		}
	}
	f, err := os.Create(out)
	if err != nil {
		return nil, err
	}
	defer f.Close()
	enc := json.NewEncoder(f)
	st := &TraceStats{Messages: map[string]int{}}
	emit := func(m graph.M) {
		enc.Encode(m)
		st.Events++
		if len(st.Sample) < 6 {
			st.Sample = append(st.Sample, m)
		}
	}
	rng := rand.New(rand.NewSource(seed))
	pick := func(xs ...string) string { return xs[rng.Intn(len(xs))] }
	app := e.App
	for i := 0; i < n; i++ {
		ctx := env.Fork(e.Ctx).WithBlockTime(env.T0)
		id := setupIds[rng.Intn(len(setupIds))]
		if err := s.configure(ctx, setups[id]); err != nil {
			return nil, err
		}
		if i > 0 {
			emit(graph.M{"ev": "reset"})
		}
		emit(graph.M{"ev": "configure", "setup": id})
		st.Traces++
		now := int64(0)
		nsteps := 12 + rng.Intn(18)
		// helpers over the real state: the driver aims most attempts at what exists so that a good share is accepted
		fresh := func() string {
			var c []string
			for _, a := range addrs {
				if a != "mod" && app.AccountKeeper.GetAccount(ctx, s.addr[a]) == nil {
					c = append(c, a)
				}
			}
			if len(c) == 0 || rng.Intn(6) == 0 {
				return addrs[rng.Intn(len(addrs))]
			}
			return c[rng.Intn(len(c))]
		}
		spendableD := func(a, d string) int64 { return app.BankKeeper.SpendableCoins(ctx, s.addr[a]).AmountOf(d).Int64() }
		curDenom := "uc4e" // the vesting denomination as far as the driver knows (a governance update may change it while no pools exist)
		spendable := func(a string) int64 { return spendableD(a, curDenom) }
		lockedD := func(a, d string) int64 { return app.BankKeeper.LockedCoins(ctx, s.addr[a]).AmountOf(d).Int64() }
		// a random non-empty sublist of the denominations (sorted), mostly all of them
		someDenoms := func() []string {
			if len(denoms) == 1 || rng.Intn(2) == 0 {
				return denoms
			}
			return []string{denoms[rng.Intn(len(denoms))]}
		}
		anyList := func(ds []string) []any {
			out := []any{}
			for _, d := range ds {
				out = append(out, d)
			}
			return out
		}
		withLocked := func() string {
			var c []string
			for _, a := range addrs {
				for _, d := range denoms {
					if lockedD(a, d) > 0 {
						c = append(c, a)
						break
					}
				}
			}
			if len(c) == 0 || rng.Intn(6) == 0 {
				return addrs[rng.Intn(len(addrs))]
			}
			return c[rng.Intn(len(c))]
		}
		owners := []string{"o1", "o1", "o2", "g1"}
		upTo := func(n int64) int64 {
			if n <= 0 || rng.Intn(7) == 0 {
				return int64(rng.Intn(42)) - 1
			}
			return 1 + rng.Int63n(n)
		}
		for step := 0; step < nsteps; step++ {
			if (step == 0 && rng.Intn(3) == 0) || rng.Intn(40) == 0 {
				// MsgUpdateDenomParam: by governance or by a user, to one of the denominations
				auth, d := pick("gov", "gov", "user"), denoms[rng.Intn(len(denoms))]
				a := graph.M{"name": "updatedenom", "auth": auth, "d": d}
				outcome, detail, _, _ := e.Deliver(ctx, s.buildMsg(a))
				if outcome == "panic" {
					return nil, fmt.Errorf("denom update panicked: %s", detail)
				}
				if outcome == "ok" {
					curDenom = d
				}
				st.Messages["updatedenom."+outcome]++
				emit(graph.M{"ev": "updatedenom", "auth": auth, "d": d, "ok": outcome == "ok", "post": s.postOf(s.project(ctx))})
				continue
			}
			switch k := rng.Intn(12); {
			case k <= 1 && now < 30:
				d := int64(1 + rng.Intn(3))
				now += d
				ctx = ctx.WithBlockTime(ctx.BlockTime().Add(time.Duration(d) * time.Second)).WithBlockHeight(ctx.BlockHeight() + 1)
				emit(graph.M{"ev": "advance", "d": d})
				continue
			case k == 2:
				// delegation by an account owner through the real staking keeper
				a := addrs[rng.Intn(len(addrs))]
				if a == "mod" {
					continue
				}
				acc := app.AccountKeeper.GetAccount(ctx, s.addr[a])
				b := app.BankKeeper.GetBalance(ctx, s.addr[a], "uc4e").Amount.Int64()
				if acc == nil || b <= 0 {
					continue
				}
				amt := 1 + rng.Int63n(b)
				val, _ := app.StakingKeeper.GetValidator(ctx, e.ValAddr)
				if _, err := app.StakingKeeper.Delegate(ctx, s.addr[a], sdk.NewInt(amt), stakingtypes.Unbonded, val, true); err != nil {
					return nil, fmt.Errorf("delegate: %w", err)
				}
				emit(graph.M{"ev": "delegate", "a": a, "amt": amt, "post": s.postOf(s.project(ctx))})
				continue
			}
			// a message
			var ev, act graph.M
			switch m := pick("createpool", "createpool", "withdraw", "send", "send", "send", "createacc", "split", "split", "move", "movedenoms"); m {
			case "createpool":
				o, nme, dur, vt := pick(owners...), pick("p", "q", "s", "t", "gp", ""), int64(rng.Intn(5)), pick(append(append([]string{}, vtNames...), vtNames...)...)
				if rng.Intn(8) == 0 {
					vt = "nosuch"
				}
				amt := upTo(min64(spendable(o), 15))
				ev = graph.M{"m": m, "o": o, "n": nme, "amt": amt, "dur": dur, "vt": vt}
				act = graph.M{"name": m, "x": graph.M{"o": o, "n": nme, "dur": dur, "vt": vt}, "amt": amt}
			case "withdraw":
				o := pick(owners...)
				ev = graph.M{"m": m, "o": o}
				act = graph.M{"name": m, "x": graph.M{"o": o}}
			case "send":
				o, to, nme, restart := pick(owners...), fresh(), pick("p", "q", "s", "gp", "gq", "nosuch"), rng.Intn(2) == 0
				var have []string
				for _, a := range []string{"o1", "o2", "g1"} {
					if av, found := app.CfevestingKeeper.GetAccountVestingPools(ctx, s.addr[a].String()); found && len(av.VestingPools) > 0 {
						have = append(have, a)
					}
				}
				if len(have) > 0 && rng.Intn(6) > 0 {
					o = have[rng.Intn(len(have))]
				}
				amt := int64(rng.Intn(42)) - 1
				if av, found := app.CfevestingKeeper.GetAccountVestingPools(ctx, s.addr[o].String()); found && len(av.VestingPools) > 0 && rng.Intn(8) > 0 {
					vp := av.VestingPools[rng.Intn(len(av.VestingPools))]
					nme = vp.Name
					amt = upTo(min64(vp.GetCurrentlyLocked().Int64(), 12))
				}
				ev = graph.M{"m": m, "o": o, "to": to, "n": nme, "amt": amt, "restart": restart}
				act = graph.M{"name": m, "x": graph.M{"o": o, "to": to, "n": nme, "restart": restart}, "amt": amt}
			case "createacc":
				from, to := pick("o1", "o2", "g1", "r1"), fresh()
				off := [][2]int64{{0, 4}, {0, 2}, {2, 2}, {1, 3}, {2, 6}, {3, 1}, {-2, 3}}[rng.Intn(7)]
				ds := someDenoms()
				if rng.Intn(5) > 0 {
					var have []string
					for _, d := range ds {
						if spendableD(from, d) > 0 {
							have = append(have, d)
						}
					}
					if len(have) > 0 {
						ds = have
					}
				}
				c := graph.M{}
				for _, d := range ds {
					c[d] = upTo(min64(spendableD(from, d), 12))
				}
				ev = graph.M{"m": m, "from": from, "to": to, "c": c, "ds": anyList(ds), "s": now + off[0], "e": now + off[1]}
				act = graph.M{"name": m, "x": graph.M{"from": from, "to": to, "ds": anyList(ds)}, "c": c, "s": now + off[0], "e": now + off[1]}
			case "split":
				from, to := withLocked(), fresh()
				ds := someDenoms()
				if rng.Intn(5) > 0 {
					// mostly: only denominations of which something is locked
					var have []string
					for _, d := range ds {
						if lockedD(from, d) > 0 {
							have = append(have, d)
						}
					}
					if len(have) > 0 {
						ds = have
					}
				}
				c := graph.M{}
				for _, d := range ds {
					c[d] = upTo(lockedD(from, d))
				}
				ev = graph.M{"m": m, "from": from, "to": to, "c": c, "ds": anyList(ds)}
				act = graph.M{"name": m, "x": graph.M{"from": from, "to": to, "ds": anyList(ds)}, "c": c}
			case "move":
				from, to := withLocked(), fresh()
				ev = graph.M{"m": m, "from": from, "to": to}
				act = graph.M{"name": m, "x": graph.M{"from": from, "to": to}}
			case "movedenoms":
				from, to := withLocked(), fresh()
				ds := anyList(someDenoms())
				if rng.Intn(6) == 0 {
					ds = []any{}
				}
				ev = graph.M{"m": m, "from": from, "to": to, "ds": ds}
				act = graph.M{"name": m, "x": graph.M{"from": from, "to": to, "ds": ds}}
			}
			msg := s.buildMsg(act)
			outcome, detail, events, res := e.Deliver(ctx, msg)
			if outcome == "panic" {
				// baseapp recovers a handler panic: the transaction fails and its writes are dropped - a rejection for the specification
				st.Panics = append(st.Panics, graph.Str(ev["m"])+": "+detail)
				ev["panic"] = true
				outcome = "rejected"
			}
			ev["ev"], ev["ok"] = "msg", outcome == "ok"
			ev["post"] = s.postOf(s.project(ctx))
			if m := graph.Str(ev["m"]); (m == "withdraw" || m == "send") && outcome == "ok" {
				// the typed withdrawal events of this message: pool and amount
				evs := []any{}
				for _, x := range events {
					if x.Type != "chain4energy.c4echain.cfevesting.WithdrawAvailable" {
						continue
					}
					pm, err := sdk.ParseTypedEvent(x)
					if err != nil {
						return nil, fmt.Errorf("typed event: %w", err)
					}
					w := pm.(*vtypes.WithdrawAvailable)
					c, err := sdk.ParseCoinNormalized(w.Amount)
					if err != nil {
						return nil, fmt.Errorf("typed event amount %q: %w", w.Amount, err)
					}
					evs = append(evs, graph.M{"pool": w.VestingPoolName, "amount": c.Amount.Int64(), "denom": c.Denom})
				}
				ev["events"] = evs
			}
			if graph.Str(ev["m"]) == "withdraw" && outcome == "ok" && res != nil {
				for _, r := range res.MsgResponses {
					if wr, ok := r.GetCachedValue().(*vtypes.MsgWithdrawAllAvailableResponse); ok {
						ev["paid"] = wr.Withdrawn.Amount.Int64()
					}
				}
			}
			st.Messages[graph.Str(ev["m"])+"."+outcome]++
			emit(ev)
		}
	}
	return st, nil
}
