// Package distributor binds spec/Distributor.tla to x/cfedistributor.
package distributor

import (
	"fmt"
	"math/big"
	"sort"
	"strings"
	"time"

	"github.com/chain4energy/c4e-chain/x/cfedistributor"
	dkeeper "github.com/chain4energy/c4e-chain/x/cfedistributor/keeper"
	dtypes "github.com/chain4energy/c4e-chain/x/cfedistributor/types"
	mtypes "github.com/chain4energy/c4e-chain/x/cfeminter/types"
	sdk "github.com/cosmos/cosmos-sdk/types"
	sdkerrors "github.com/cosmos/cosmos-sdk/types/errors"
	authtypes "github.com/cosmos/cosmos-sdk/x/auth/types"
	vestingtypes "github.com/cosmos/cosmos-sdk/x/auth/vesting/types"
	abci "github.com/tendermint/tendermint/abci/types"

	"verif/harness/env"
	"verif/harness/graph"
	"verif/harness/walk"
)

var one18 = big.NewInt(1000000000000000000)

type state struct {
	env   *env.Env
	P     int64
	cfgs  []any
	ids   map[string]string // model id -> real id
	rids  map[string]string // real id -> model id
	denom []string
}

var typeOf = map[string]string{"MAIN": dtypes.Main, "MOD": dtypes.ModuleAccount, "BASE": dtypes.BaseAccount, "INT": dtypes.InternalAccount, "WRONG": "WRONG_TYPE"}
var modelType = map[string]string{dtypes.Main: "MAIN", dtypes.ModuleAccount: "MOD", dtypes.BaseAccount: "BASE", dtypes.InternalAccount: "INT"}

func (s *state) realID(id string) string {
	if r, ok := s.ids[id]; ok {
		return r
	}
	return id
}

func (s *state) account(a graph.M) dtypes.Account {
	t := graph.Str(a["t"])
	if t == "MAIN" {
		return dtypes.Account{Type: dtypes.Main, Id: ""}
	}
	return dtypes.Account{Type: typeOf[t], Id: s.realID(graph.Str(a["id"]))}
}

func (s *state) dec(v any) sdk.Dec {
	r := big.NewRat(graph.Num(v), s.P)
	num := new(big.Int).Mul(r.Num(), one18)
	return sdk.NewDecFromBigIntWithPrec(new(big.Int).Quo(num, r.Denom()), 18)
}

func (s *state) buildSD(m graph.M) dtypes.SubDistributor {
	sd := dtypes.SubDistributor{Name: graph.Str(m["name"])}
	for _, x := range graph.List(m["sources"]) {
		a := s.account(graph.Rec(x))
		sd.Sources = append(sd.Sources, &a)
	}
	sd.Destinations.PrimaryShare = s.account(graph.Rec(m["primary"]))
	sd.Destinations.BurnShare = s.dec(m["burn"])
	for _, x := range graph.List(m["shares"]) {
		sh := graph.Rec(x)
		sd.Destinations.Shares = append(sd.Destinations.Shares, &dtypes.DestinationShare{Name: graph.Str(sh["name"]), Share: s.dec(sh["share"]), Destination: s.account(graph.Rec(sh["dest"]))})
	}
	return sd
}

func (s *state) buildCfg(c any) []dtypes.SubDistributor {
	var out []dtypes.SubDistributor
	for _, x := range graph.List(c) {
		out = append(out, s.buildSD(graph.Rec(x)))
	}
	return out
}

// expected configuration of a model state: index into the printed list, or the configuration itself
func (s *state) cfgOf(st graph.M) any {
	switch v := st["ci"].(type) {
	case []any:
		return v
	default:
		i := graph.Num(v)
		if i == 0 {
			return []any{}
		}
		return s.cfgs[i-1]
	}
}

func (s *state) keyOf(a *dtypes.Account, burn bool) string {
	if burn {
		return "BURN"
	}
	if a == nil {
		return "NIL"
	}
	if a.Type == dtypes.Main {
		return "MAIN"
	}
	id := a.Id
	if a.Type != dtypes.InternalAccount || true {
		if m, ok := s.rids[id]; ok {
			id = m
		}
	}
	return modelType[a.Type] + "-" + id
}

// normalised configuration for comparison
func (s *state) normReal(subs []dtypes.SubDistributor) string {
	var b strings.Builder
	for _, sd := range subs {
		fmt.Fprintf(&b, "[%s src:", sd.Name)
		for _, a := range sd.Sources {
			fmt.Fprintf(&b, "%s,", s.keyOf(a, false))
		}
		p := sd.Destinations.PrimaryShare
		fmt.Fprintf(&b, " prim:%s burn:%s sh:", s.keyOf(&p, false), sd.Destinations.BurnShare.String())
		for _, sh := range sd.Destinations.Shares {
			d := sh.Destination
			fmt.Fprintf(&b, "%s=%s>%s,", sh.Name, sh.Share.String(), s.keyOf(&d, false))
		}
		b.WriteString("]")
	}
	return b.String()
}

type bankAcc struct {
	key  string
	addr sdk.AccAddress
}

func (s *state) bankAccounts() []bankAcc {
	out := []bankAcc{{"MAIN", authtypes.NewModuleAddress(dtypes.DistributorMainAccount)}}
	for _, m := range []string{"m1", "m2", "m3"} {
		out = append(out, bankAcc{"MOD-" + m, authtypes.NewModuleAddress(s.ids[m])})
	}
	for _, b := range []string{"b1", "b2"} {
		if u, ok := s.env.Users[b]; ok {
			out = append(out, bankAcc{"BASE-" + b, u.Addr})
		}
	}
	return out
}

type obs struct {
	Bal    map[string]map[string]string   // key -> denom -> integer
	Rem    map[string]map[string]*big.Rat // key -> denom -> decimal
	Params string
	Err    string
}

func (s *state) project(ctx sdk.Context) obs {
	o := obs{Bal: map[string]map[string]string{}, Rem: map[string]map[string]*big.Rat{}}
	k := s.env.App.CfedistributorKeeper
	for _, a := range s.bankAccounts() {
		for _, c := range s.env.App.BankKeeper.GetAllBalances(ctx, a.addr) {
			if c.Denom == env.BondDenom || c.IsZero() {
				continue
			}
			if o.Bal[a.key] == nil {
				o.Bal[a.key] = map[string]string{}
			}
			o.Bal[a.key][c.Denom] = c.Amount.String()
		}
	}
	sr, err := k.States(sdk.WrapSDKContext(ctx), &dtypes.QueryStatesRequest{})
	if err != nil {
		o.Err = "states query: " + err.Error()
		return o
	}
	for i := range sr.States {
		st := sr.States[i]
		key := s.keyOf(st.Account, st.Burn)
		for _, c := range st.Remains {
			if c.Amount.IsZero() {
				continue
			}
			if o.Rem[key] == nil {
				o.Rem[key] = map[string]*big.Rat{}
			}
			r := new(big.Rat).SetFrac(c.Amount.BigInt(), one18)
			if old, ok := o.Rem[key][c.Denom]; ok {
				r.Add(r, old)
			}
			o.Rem[key][c.Denom] = r
		}
	}
	pr, err := k.Params(sdk.WrapSDKContext(ctx), &dtypes.QueryParamsRequest{})
	if err != nil {
		o.Err = "params query: " + err.Error()
		return o
	}
	o.Params = s.normReal(pr.Params.SubDistributors)
	return o
}

func coinMap(v any) map[string]map[string]int64 {
	out := map[string]map[string]int64{}
	m, ok := v.(graph.M)
	if !ok {
		return out
	}
	for k, cv := range m {
		out[k] = map[string]int64{}
		for d, a := range graph.Rec(cv) {
			if n := graph.Num(a); n != 0 {
				out[k][d] = n
			}
		}
	}
	return out
}

// C03 evaluated directly on the real projection: non-negative, integer sum, equals main balance.
func (s *state) booksPredicate(o obs) string {
	sum := map[string]*big.Rat{}
	for k, m := range o.Rem {
		for d, r := range m {
			if r.Sign() < 0 {
				return fmt.Sprintf("negative leftover %s %s for %s", r.FloatString(18), d, k)
			}
			if sum[d] == nil {
				sum[d] = new(big.Rat)
			}
			sum[d].Add(sum[d], r)
		}
	}
	denoms := map[string]bool{}
	for d := range sum {
		denoms[d] = true
	}
	for d := range o.Bal["MAIN"] {
		denoms[d] = true
	}
	for d := range denoms {
		sm := sum[d]
		if sm == nil {
			sm = new(big.Rat)
		}
		if !sm.IsInt() {
			return fmt.Sprintf("sum of leftovers %s%s is not a whole number", sm.FloatString(18), d)
		}
		mb := o.Bal["MAIN"][d]
		if mb == "" {
			mb = "0"
		}
		if sm.Num().String() != mb {
			return fmt.Sprintf("sum of leftovers %s%s differs from the main account balance %s%s", sm.Num().String(), d, mb, d)
		}
	}
	return ""
}

// faulty bank keeper: fails the calls whose target is in the fault set of the block
type faultyBank struct {
	dtypes.BankKeeper
	s      *state
	faults map[string]bool
	hit    map[string]int
}

var errInjected = sdkerrors.Wrap(sdkerrors.ErrInsufficientFunds, "injected fault")

func (f *faultyBank) modKey(name string) string {
	if name == dtypes.DistributorMainAccount {
		return "MAIN"
	}
	if m, ok := f.s.rids[name]; ok {
		return "MOD-" + m
	}
	return "MOD-" + name
}
func (f *faultyBank) baseKey(a sdk.AccAddress) string {
	for n, u := range f.s.env.Users {
		if u.Addr.Equals(a) {
			return "BASE-" + n
		}
	}
	return "BASE-" + a.String()
}
func (f *faultyBank) fail(t string) bool {
	if f.faults[t] {
		f.hit[t]++
		return true
	}
	return false
}
func (f *faultyBank) SendCoinsFromAccountToModule(ctx sdk.Context, sender sdk.AccAddress, recipientModule string, amt sdk.Coins) error {
	if f.fail("sweep:" + f.baseKey(sender)) {
		return errInjected
	}
	return f.BankKeeper.SendCoinsFromAccountToModule(ctx, sender, recipientModule, amt)
}
func (f *faultyBank) SendCoinsFromModuleToAccount(ctx sdk.Context, senderModule string, recipient sdk.AccAddress, amt sdk.Coins) error {
	if f.fail("pay:" + f.baseKey(recipient)) {
		return errInjected
	}
	return f.BankKeeper.SendCoinsFromModuleToAccount(ctx, senderModule, recipient, amt)
}
func (f *faultyBank) SendCoinsFromModuleToModule(ctx sdk.Context, senderModule, recipientModule string, amt sdk.Coins) error {
	if recipientModule == dtypes.DistributorMainAccount && f.fail("sweep:"+f.modKey(senderModule)) {
		return errInjected
	}
	if senderModule == dtypes.DistributorMainAccount && f.fail("pay:"+f.modKey(recipientModule)) {
		return errInjected
	}
	return f.BankKeeper.SendCoinsFromModuleToModule(ctx, senderModule, recipientModule, amt)
}
func (f *faultyBank) BurnCoins(ctx sdk.Context, moduleName string, amt sdk.Coins) error {
	if f.fail("pay:BURN") {
		return errInjected
	}
	return f.BankKeeper.BurnCoins(ctx, moduleName, amt)
}

// lockBaseSources turns every base account named by a "sweep:BASE-<user>" fault into a vesting account whose balance is
// fully locked (the fault is removed from the set: the real bank keeper fails the sweep) and returns the undo function.
func (s *state) lockBaseSources(ctx sdk.Context, faults map[string]bool) func() {
	app := s.env.App
	var saved []authtypes.AccountI
	for f := range faults {
		if !strings.HasPrefix(f, "sweep:BASE-") {
			continue
		}
		u, ok := s.env.Users[strings.TrimPrefix(f, "sweep:BASE-")]
		if !ok {
			continue
		}
		acc := app.AccountKeeper.GetAccount(ctx, u.Addr)
		ba, isBase := acc.(*authtypes.BaseAccount)
		bal := app.BankKeeper.GetAllBalances(ctx, u.Addr)
		if !isBase || bal.IsZero() {
			continue
		}
		saved = append(saved, ba)
		now := ctx.BlockTime().Unix()
		app.AccountKeeper.SetAccount(ctx, vestingtypes.NewContinuousVestingAccountRaw(vestingtypes.NewBaseVestingAccount(ba, bal, now+1000000), now))
		delete(faults, f)
	}
	return func() {
		for _, a := range saved {
			app.AccountKeeper.SetAccount(ctx, a)
		}
	}
}

func (s *state) keeperWithFaults(faults map[string]bool) (dkeeper.Keeper, *faultyBank) {
	app := s.env.App
	fb := &faultyBank{BankKeeper: app.BankKeeper, s: s, faults: faults, hit: map[string]int{}}
	k := dkeeper.NewKeeper(app.AppCodec(), app.GetKey(dtypes.StoreKey), app.GetMemKey(dtypes.MemStoreKey), app.GetSubspace(dtypes.ModuleName),
		fb, app.AccountKeeper, env.Gov())
	return *k, fb
}

func (s *state) deposit(ctx sdk.Context, key string, coins sdk.Coins) error {
	bk := s.env.App.BankKeeper
	if err := bk.MintCoins(ctx, mtypes.ModuleName, coins); err != nil {
		return err
	}
	switch {
	case key == "MAIN":
		return bk.SendCoinsFromModuleToModule(ctx, mtypes.ModuleName, dtypes.DistributorMainAccount, coins)
	case strings.HasPrefix(key, "MOD-"):
		return bk.SendCoinsFromModuleToModule(ctx, mtypes.ModuleName, s.ids[key[4:]], coins)
	case strings.HasPrefix(key, "BASE-"):
		return bk.SendCoinsFromModuleToAccount(ctx, mtypes.ModuleName, s.env.Users[key[5:]].Addr, coins)
	}
	return fmt.Errorf("cannot deposit to %s", key)
}

func (s *state) wipeStore(ctx sdk.Context) {
	store := ctx.KVStore(s.env.App.GetKey(dtypes.StoreKey))
	it := store.Iterator(nil, nil)
	var keys [][]byte
	for ; it.Valid(); it.Next() {
		keys = append(keys, append([]byte{}, it.Key()...))
	}
	it.Close()
	for _, k := range keys {
		store.Delete(k)
	}
}

type evRec struct {
	SD, Share, Dest string
	Amount          map[string]*big.Rat
}

func decCoinsMap(dc sdk.DecCoins) map[string]*big.Rat {
	out := map[string]*big.Rat{}
	for _, c := range dc {
		if !c.Amount.IsZero() {
			out[c.Denom] = new(big.Rat).SetFrac(c.Amount.BigInt(), one18)
		}
	}
	return out
}

func (s *state) realEvents(ctx sdk.Context) ([]evRec, error) {
	var out []evRec
	for _, ev := range ctx.EventManager().Events() {
		if !strings.HasPrefix(ev.Type, "chain4energy.c4echain.cfedistributor.") {
			continue
		}
		msg, err := sdk.ParseTypedEvent(abci.Event(ev))
		if err != nil {
			return nil, err
		}
		switch e := msg.(type) {
		case *dtypes.Distribution:
			out = append(out, evRec{e.Subdistributor, e.ShareName, s.keyOf(e.Destination, false), decCoinsMap(e.Amount)})
		case *dtypes.DistributionBurn:
			out = append(out, evRec{e.Subdistributor, "BURN", "BURN", decCoinsMap(e.Amount)})
		}
	}
	return out, nil
}

func (s *state) modelEvents(act graph.M) []evRec {
	var out []evRec
	for _, x := range graph.List(act["events"]) {
		e := graph.Rec(x)
		r := evRec{graph.Str(e["sd"]), graph.Str(e["share"]), graph.Str(e["dest"]), map[string]*big.Rat{}}
		for d, a := range graph.Rec(e["amount"]) {
			if n := graph.Num(a); n != 0 {
				r.Amount[d] = big.NewRat(n, s.P)
			}
		}
		out = append(out, r)
	}
	return out
}

func evString(es []evRec) []string {
	var out []string
	for _, e := range es {
		var ds []string
		for d, a := range e.Amount {
			ds = append(ds, a.FloatString(6)+d)
		}
		sort.Strings(ds)
		out = append(out, fmt.Sprintf("%s/%s->%s:%s", e.SD, e.Share, e.Dest, strings.Join(ds, ",")))
	}
	sort.Strings(out)
	return out
}

func apply(w *walk.Worker, ctx sdk.Context, e *graph.Edge, path []*graph.Edge, g *graph.Graph) (sdk.Context, []walk.Finding, bool) {
	s := w.State.(*state)
	app := s.env.App
	act := e.Act
	exp := g.States[e.To]
	name := graph.Str(act["name"])
	var fs []walk.Finding
	fail := func(prop, kind, sig, msg string, ex, ob any) {
		fs = append(fs, walk.Finding{Prop: prop, Kind: kind, Sig: sig, Msg: msg, Path: walk.PathActs(path), Expected: ex, Observed: ob})
	}
	w.Count("act." + name)
	faulty := false
	supBefore := map[string]sdk.Int{}
	switch name {
	case "configure":
		params := dtypes.Params{SubDistributors: s.buildCfg(s.cfgOf(exp))}
		gen := dtypes.GenesisState{Params: params}
		if err := gen.Validate(); err != nil {
			fail("C13", "outcome", "dist.genesis.validate", "model-valid configuration rejected by validation: "+err.Error(), "valid", "invalid")
			return ctx, fs, true
		}
		s.wipeStore(ctx)
		if p := env.Try(func() { cfedistributor.InitGenesis(ctx, app.CfedistributorKeeper, gen, app.AccountKeeper) }); p != "" {
			fail("C12", "panic", "dist.initgenesis.panic", "InitGenesis panicked: "+p, nil, p)
			return ctx, fs, true
		}
	case "deposit":
		for key, cv := range graph.Rec(act["v"]) {
			coins := sdk.NewCoins()
			for d, a := range graph.Rec(cv) {
				if n := graph.Num(a); n > 0 {
					coins = coins.Add(sdk.NewCoin(d, sdk.NewInt(n)))
				}
			}
			if err := s.deposit(ctx, key, coins); err != nil {
				panic("harness deposit failed: " + err.Error())
			}
		}
	case "block":
		faults := map[string]bool{}
		for _, f := range graph.List(act["faults"]) {
			faults[graph.Str(f)] = true
		}
		faulty = len(faults) > 0
		if faulty {
			w.Count("block.faulty")
		}
		ctx = ctx.WithBlockHeight(ctx.BlockHeight() + 1).WithBlockTime(ctx.BlockTime().Add(5 * time.Second))
		k := app.CfedistributorKeeper
		// a failing sweep of a base-account source is made to fail for a real reason: for the block the account is a
		// continuous vesting account with its whole balance locked, so the bank itself refuses the transfer
		nf := len(faults)
		restore := s.lockBaseSources(ctx, faults)
		if len(faults) < nf {
			w.Count("block.sweep-refused-by-bank")
		}
		if faulty {
			k, _ = s.keeperWithFaults(faults)
		}
		for _, d := range s.denomsOf(g.States[e.From], exp) {
			supBefore[d] = app.BankKeeper.GetSupply(ctx, d).Amount
		}
		p := env.Try(func() { cfedistributor.BeginBlocker(ctx, k) })
		restore()
		if p != "" {
			fail("C10", "panic", "dist.beginblock.panic."+shapeOf(s.cfgOf(g.States[e.From])), "BeginBlocker panicked: "+p, "no panic", p)
			return ctx, fs, true
		}
		// the module's own registered invariants as a second opinion
		if msg, broken := dkeeper.StateSumBalanceCheckInvariant(app.CfedistributorKeeper)(ctx); broken {
			fail("C03", "predicate", "dist.books."+shapeOf(s.cfgOf(g.States[e.From])), "registered invariant state-sum-balance-check broken: "+msg, nil, nil)
		}
		if msg, broken := dkeeper.NonNegativeCoinStateInvariant(app.CfedistributorKeeper)(ctx); broken {
			fail("C03", "predicate", "dist.nonneg", "registered invariant nonnegative-coin-state broken: "+msg, nil, nil)
		}
		re, err := s.realEvents(ctx)
		if err != nil {
			fail("C18", "predicate", "dist.events.parse", "typed event cannot be parsed: "+err.Error(), nil, nil)
		} else if graph.Bool(exp["exact"]) {
			me := s.modelEvents(act)
			a, b := evString(me), evString(re)
			if strings.Join(a, ";") != strings.Join(b, ";") {
				fail("C18", "mismatch", "dist.events."+shapeOf(s.cfgOf(g.States[e.From])), "distribution events differ from the amounts assigned in the block", a, b)
			}
		}
	case "update":
		u := graph.Rec(act["u"])
		auth := graph.Str(u["auth"])
		switch auth {
		case "gov":
			auth = env.Gov()
		case "user":
			auth = s.env.Users["b1"].Bech32()
		}
		var msg sdk.Msg
		switch graph.Str(u["kind"]) {
		case "params":
			msg = &dtypes.MsgUpdateParams{Authority: auth, SubDistributors: s.buildCfg(u["subs"])}
		case "sub":
			sd := s.buildSD(graph.Rec(u["sd"]))
			msg = &dtypes.MsgUpdateSubDistributorParam{Authority: auth, SubDistributor: &sd}
		case "burn":
			msg = &dtypes.MsgUpdateSubDistributorBurnShareParam{Authority: auth, SubDistributorName: graph.Str(u["sdname"]), BurnShare: s.dec(u["value"])}
		case "share":
			msg = &dtypes.MsgUpdateSubDistributorDestinationShareParam{Authority: auth, SubDistributorName: graph.Str(u["sdname"]), DestinationName: graph.Str(u["dest"]), Share: s.dec(u["value"])}
		}
		outcome, detail, _, _ := s.env.Deliver(ctx, msg)
		w.Count("outcome.update." + graph.Str(u["kind"]) + "." + outcome)
		want := "rejected"
		if graph.Bool(act["ok"]) {
			want = "ok"
		}
		if outcome == "panic" {
			fail("C20", "panic", "dist.update.panic."+graph.Str(u["kind"]), "parameter update panicked: "+detail, want, outcome)
			return ctx, fs, true
		}
		if outcome != want {
			fail("C13", "outcome", "dist.update.outcome."+graph.Str(u["kind"]), "parameter update accept/reject differs from the model ("+detail+")", want, outcome)
			if outcome == "ok" {
				// the code stored parameters that the specification refuses: does the chain survive them?  Two blocks with coins
				// on every bank account a sub-distributor may draw from (C10)
				pctx, _ := ctx.CacheContext()
				for b := 0; b < 2; b++ {
					for _, acc := range s.bankAccounts() {
						if err := s.deposit(pctx, acc.key, sdk.NewCoins(sdk.NewCoin("uc4e", sdk.NewInt(10)))); err != nil {
							break
						}
					}
					pctx = pctx.WithBlockHeight(pctx.BlockHeight() + 1).WithBlockTime(pctx.BlockTime().Add(5 * time.Second))
					if p := env.Try(func() { cfedistributor.BeginBlocker(pctx, app.CfedistributorKeeper) }); p != "" {
						fail("C10", "panic", "dist.beginblock.panic.after-accepted-update", "BeginBlocker panicked after a parameter update that the specification refuses was accepted: "+p, "no panic", p)
						break
					}
				}
			}
			return ctx, fs, true
		}
	case "export":
		var gen *dtypes.GenesisState
		k := app.CfedistributorKeeper
		if p := env.Try(func() { gen = cfedistributor.ExportGenesis(ctx, k) }); p != "" {
			fail("C12", "panic", "dist.export.panic", "ExportGenesis panicked: "+p, nil, p)
			return ctx, fs, true
		}
		if err := gen.Validate(); err != nil {
			fail("C12", "predicate", "dist.export.invalid", "exported genesis does not validate: "+err.Error(), "valid", err.Error())
		}
		cdc := app.AppCodec()
		bz, err := cdc.MarshalJSON(gen)
		var gen2 dtypes.GenesisState
		if err == nil {
			err = cdc.UnmarshalJSON(bz, &gen2)
		}
		if err != nil {
			fail("C12", "predicate", "dist.export.json", "exported genesis does not survive JSON: "+err.Error(), nil, nil)
			return ctx, fs, true
		}
		s.wipeStore(ctx)
		if p := env.Try(func() { cfedistributor.InitGenesis(ctx, k, gen2, app.AccountKeeper) }); p != "" {
			fail("C12", "panic", "dist.import.panic", "InitGenesis of the exported state panicked: "+p, nil, p)
			return ctx, fs, true
		}
		if p := env.Try(func() {
			if bz3, err3 := cdc.MarshalJSON(cfedistributor.ExportGenesis(ctx, k)); err3 != nil || string(bz3) != string(bz) {
				fail("C12", "mismatch", "dist.reexport.differs", "the genesis exported after import differs from the one that was imported", string(bz), string(bz3))
			}
		}); p != "" {
			fail("C12", "panic", "dist.reexport.panic", "ExportGenesis after import panicked: "+p, nil, p)
		}
	}
	o := s.project(ctx)
	if o.Err != "" {
		fail("C20", "panic", "dist.query", o.Err, nil, nil)
		return ctx, fs, true
	}
	shape := shapeOf(s.cfgOf(exp))
	// --- C01: in a block the supply of every denomination changes by exactly what the configuration burns
	// (the model's balances before and after the block differ by the burned coins only)
	for d, before := range supBefore {
		want := s.modelTotal(exp, d) - s.modelTotal(g.States[e.From], d)
		got := app.BankKeeper.GetSupply(ctx, d).Amount.Sub(before)
		if got.String() != fmt.Sprint(want) {
			fail("C01", "predicate", "dist.supply-delta."+shape, "supply change of "+d+" in the block differs from the configured burn", want, got.String())
		}
	}
	// --- C03 on the real state itself (idle states only)
	if graph.Str(exp["phase"]) == "dep" {
		if msg := s.booksPredicate(o); msg != "" {
			prop := "C03"
			if faulty {
				prop = "C14"
			}
			fail(prop, "predicate", "dist.books."+shape, msg, nil, nil)
			if faulty {
				// a failed transfer excuses nothing: the books must match the coins held in every idle state (C03), too
				fail("C03", "predicate", "dist.books.under-fault."+shape, msg, nil, nil)
			}
		}
	}
	// --- comparison with the model
	owner := map[string]string{"block": "C04", "configure": "C12", "update": "C13", "export": "C12", "deposit": "C04"}[name]
	if faulty {
		owner = "C14"
	}
	if want := s.normReal(s.buildCfg(s.cfgOf(exp))); want != o.Params {
		fail(map[string]string{"update": "C13", "export": "C12", "configure": "C12"}[name]+"", "mismatch", "dist.params."+name, "stored parameters differ from the model", want, o.Params)
	}
	eb := coinMap(exp["bal"])
	keys := map[string]bool{}
	for k := range eb {
		keys[k] = true
	}
	for k := range o.Bal {
		keys[k] = true
	}
	for k := range keys {
		ds := map[string]bool{}
		for d := range eb[k] {
			ds[d] = true
		}
		for d := range o.Bal[k] {
			ds[d] = true
		}
		for d := range ds {
			got := o.Bal[k][d]
			if got == "" {
				got = "0"
			}
			if fmt.Sprint(eb[k][d]) != got {
				p := owner
				if k == "MAIN" && !faulty && name == "block" {
					p = "C03"
				}
				fail(p, "mismatch", "dist.balance."+shape, fmt.Sprintf("balance of %s (%s) differs from the model", k, d), eb[k][d], got)
				if faulty {
					// what a destination holds and is owed is its share of what really flowed in, whatever failed on the way (C04)
					fail("C04", "mismatch", "dist.balance.under-fault."+shape, fmt.Sprintf("balance of %s (%s) differs from the model in a block with a failing transfer", k, d), eb[k][d], got)
				}
			}
		}
	}
	if graph.Bool(exp["exact"]) {
		er := coinMap(exp["rem"])
		keys = map[string]bool{}
		for k := range er {
			keys[k] = true
		}
		for k := range o.Rem {
			keys[k] = true
		}
		for k := range keys {
			ds := map[string]bool{}
			for d := range er[k] {
				ds[d] = true
			}
			for d := range o.Rem[k] {
				ds[d] = true
			}
			for d := range ds {
				want := big.NewRat(er[k][d], s.P)
				got := o.Rem[k][d]
				if got == nil {
					got = new(big.Rat)
				}
				if want.Cmp(got) != 0 {
					fail(owner, "mismatch", "dist.leftover."+shape, fmt.Sprintf("leftover of %s (%s) differs from the model", k, d), want.FloatString(18), got.FloatString(18))
					if faulty {
						fail("C04", "mismatch", "dist.leftover.under-fault."+shape, fmt.Sprintf("leftover of %s (%s) differs from the model in a block with a failing transfer", k, d), want.FloatString(18), got.FloatString(18))
					}
					if k == "BURN" {
						// the burn leftover is the pending supply reduction: what is burned now or later is no longer what the configuration says
						fail("C01", "mismatch", "dist.burn-leftover."+shape, fmt.Sprintf("burn leftover (%s) differs from the configured burn share of the inflow minus what was burned", d), want.FloatString(18), got.FloatString(18))
					}
				}
			}
		}
	} else {
		w.Count("inexact")
	}
	return ctx, fs, len(fs) > 0
}

func (s *state) denomsOf(states ...graph.M) []string {
	set := map[string]bool{}
	for _, st := range states {
		for _, cm := range coinMap(st["bal"]) {
			for d := range cm {
				set[d] = true
			}
		}
	}
	var out []string
	for d := range set {
		out = append(out, d)
	}
	sort.Strings(out)
	return out
}

func (s *state) modelTotal(st graph.M, d string) int64 {
	var t int64
	for _, cm := range coinMap(st["bal"]) {
		t += cm[d]
	}
	return t
}

// shapeOf classifies a configuration for known-finding signatures.
func shapeOf(c any) string {
	var tags []string
	idTypes := map[string]map[string]bool{}
	for _, x := range graph.List(c) {
		sd := graph.Rec(x)
		srcs := graph.List(sd["sources"])
		seenNonMain := false
		for _, sx := range srcs {
			a := graph.Rec(sx)
			if graph.Str(a["t"]) == "MAIN" && seenNonMain {
				tags = append(tags, "nonmain-source-before-main")
			}
			if graph.Str(a["t"]) != "MAIN" {
				seenNonMain = true
			}
		}
		all := append([]any{}, srcs...)
		all = append(all, sd["primary"])
		for _, sh := range graph.List(sd["shares"]) {
			d := graph.Rec(graph.Rec(sh)["dest"])
			if graph.Str(d["t"]) == "MAIN" {
				tags = append(tags, "share-to-main")
			}
			all = append(all, d)
		}
		for _, ax := range all {
			a := graph.Rec(ax)
			id := graph.Str(a["id"])
			if id == "" {
				continue
			}
			if idTypes[id] == nil {
				idTypes[id] = map[string]bool{}
			}
			idTypes[id][graph.Str(a["t"])] = true
		}
	}
	for _, ts := range idTypes {
		if len(ts) > 1 {
			tags = append(tags, "id-shared-by-types")
			break
		}
	}
	if len(tags) == 0 {
		return "plain"
	}
	sort.Strings(tags)
	uniq := tags[:1]
	for _, t := range tags[1:] {
		if t != uniq[len(uniq)-1] {
			uniq = append(uniq, t)
		}
	}
	return strings.Join(uniq, "+")
}

func Run(file string, workers int, budget time.Duration, walks, depth int, seed int64) (*walk.Result, error) {
	g, err := graph.Load(file, "configure")
	if err != nil {
		return nil, err
	}
	meta := graph.Rec(g.Header["meta"])
	cfgs := graph.List(g.Header["cfgs"])
	newWorker := func(id int) (*walk.Worker, sdk.Context) {
		b1, b2 := env.NewUser("b1"), env.NewUser("b2")
		e := env.New(env.Options{Users: []env.User{b1, b2}})
		st := &state{env: e, P: graph.Num(meta["P"]), cfgs: cfgs,
			ids: map[string]string{"m1": dtypes.GreenEnergyBoosterCollector, "m2": dtypes.GovernanceBoosterCollector, "m3": dtypes.ValidatorsRewardsCollector,
				"b1": b1.Bech32(), "b2": b2.Bech32(), "i1": "internal_one", "i2": "internal_two"},
			rids: map[string]string{}}
		for m, r := range st.ids {
			st.rids[r] = m
		}
		return &walk.Worker{ID: id, State: st, Counters: map[string]int{}}, e.Ctx
	}
	res := walk.Run(walk.Config{G: g, Workers: workers, NewWorker: newWorker, Budget: budget, Walks: walks, WalkDepth: depth, Seed: seed,
		Apply: func(w *walk.Worker, ctx sdk.Context, e *graph.Edge, path []*graph.Edge) (sdk.Context, []walk.Finding, bool) {
			return apply(w, ctx, e, path, g)
		}})
	for i, e := range g.Edges {
		if i%(len(g.Edges)/5+1) == 0 {
			res.Samples = append(res.Samples, graph.M{"pre": g.States[e.From], "act": e.Act, "post": g.States[e.To]})
		}
	}
	return res, nil
}

// BuildCfg converts a model configuration into real sub-distributors (used by the chain-level harness).
func BuildCfg(P int64, ids map[string]string, c any) []dtypes.SubDistributor {
	s := &state{P: P, ids: ids}
	return s.buildCfg(c)
}

// KeyOf maps a real state / account to the model key.
func KeyOf(rids map[string]string, a *dtypes.Account, burn bool) string {
	s := &state{rids: rids}
	return s.keyOf(a, burn)
}
