package distributor

// Trace recording (implementation -> specification) for cfedistributor: random valid configurations over a
// fixed pool of accounts (rejection-sampled through the real Params.Validate), random deposits in two
// denominations, the real BeginBlocker; one ndjson event per step with the projected balances and leftovers.

import (
	"encoding/json"
	"fmt"
	"math/big"
	"math/rand"
	"os"
	"sort"
	"time"

	"github.com/chain4energy/c4e-chain/x/cfedistributor"
	dtypes "github.com/chain4energy/c4e-chain/x/cfedistributor/types"
	sdk "github.com/cosmos/cosmos-sdk/types"

	"verif/harness/env"
	"verif/harness/graph"
)

type TraceStats struct {
	Traces   int       `json:"traces"`
	Events   int       `json:"events"`
	Blocks   int       `json:"blocks"`
	Tried    int       `json:"configurations_tried"`
	SubDists int       `json:"sub_distributors"`
	Sample   []graph.M `json:"sample"`
}

var poolAccs = []graph.M{{"t": "MAIN", "id": ""}, {"t": "MOD", "id": "m1"}, {"t": "MOD", "id": "m2"}, {"t": "MOD", "id": "m3"}, {"t": "BASE", "id": "b1"}, {"t": "BASE", "id": "b2"},
	{"t": "INT", "id": "i1"}, {"t": "INT", "id": "i2"}, {"t": "INT", "id": "m1"}}

func randAcc(rng *rand.Rand) graph.M { return poolAccs[rng.Intn(len(poolAccs))] }

func randDistCfg(rng *rand.Rand, P int64) []any {
	n := 1 + rng.Intn(4)
	var out []any
	shareNo := 0
	for i := 0; i < n; i++ {
		name := string(rune('a' + i))
		var srcs []any
		for k := 0; k < 1+rng.Intn(2); k++ {
			srcs = append(srcs, randAcc(rng))
		}
		if i == n-1 || rng.Intn(2) == 0 {
			// make a MAIN source likely (validation demands one after every MAIN / internal destination)
			srcs[rng.Intn(len(srcs))] = poolAccs[0]
		}
		var shares []any
		for k := 0; k < rng.Intn(3); k++ {
			shareNo++
			shares = append(shares, graph.M{"name": fmt.Sprintf("s%d", shareNo), "share": []int64{0, P / 4, P / 2, P / 8}[rng.Intn(4)], "dest": randAcc(rng)})
		}
		if shares == nil {
			shares = []any{}
		}
		out = append(out, graph.M{"name": name, "sources": srcs, "primary": randAcc(rng), "shares": shares, "burn": []int64{0, 0, P / 4, P / 8}[rng.Intn(4)]})
	}
	return out
}

// RunTrace records n executions into out (ndjson).
func RunTrace(out string, n int, seed int64) (*TraceStats, error) {
	const P = int64(64)
	b1, b2 := env.NewUser("b1"), env.NewUser("b2")
	e := env.New(env.Options{Users: []env.User{b1, b2}})
	s := &state{env: e, P: P, ids: map[string]string{"m1": dtypes.GreenEnergyBoosterCollector, "m2": dtypes.GovernanceBoosterCollector, "m3": dtypes.ValidatorsRewardsCollector,
		"b1": b1.Bech32(), "b2": b2.Bech32(), "i1": "internal_one", "i2": "internal_two"}, rids: map[string]string{}}
	for m, r := range s.ids {
		s.rids[r] = m
	}
	f, err := os.Create(out)
	if err != nil {
		return nil, err
	}
	defer f.Close()
	enc := json.NewEncoder(f)
	st := &TraceStats{}
	emit := func(m graph.M) {
		enc.Encode(m)
		st.Events++
		if len(st.Sample) < 6 {
			st.Sample = append(st.Sample, m)
		}
	}
	rng := rand.New(rand.NewSource(seed))
	app := e.App
	denoms := []string{"uc4e", "stake"}
	for i := 0; i < n; i++ {
		var c []any
		var gen dtypes.GenesisState
		for {
			st.Tried++
			c = randDistCfg(rng, P)
			gen = dtypes.GenesisState{Params: dtypes.Params{SubDistributors: s.buildCfg(c)}}
			if gen.Validate() == nil {
				break
			}
		}
		st.SubDists += len(c)
		ctx := env.Fork(e.Ctx)
		s.wipeStore(ctx)
		cfedistributor.InitGenesis(ctx, app.CfedistributorKeeper, gen, app.AccountKeeper)
		if i > 0 {
			emit(graph.M{"ev": "reset"})
		}
		emit(graph.M{"ev": "configure", "cfg": c})
		st.Traces++
		// bank accounts of this configuration that may receive deposits
		keys := map[string]bool{"MAIN": true}
		for _, x := range c {
			sd := graph.Rec(x)
			accs := append([]any{}, graph.List(sd["sources"])...)
			accs = append(accs, sd["primary"])
			for _, sh := range graph.List(sd["shares"]) {
				accs = append(accs, graph.Rec(sh)["dest"])
			}
			for _, ax := range accs {
				a := graph.Rec(ax)
				if t := graph.Str(a["t"]); t == "MOD" || t == "BASE" {
					keys[t+"-"+graph.Str(a["id"])] = true
				}
			}
		}
		var ks []string
		for k := range keys {
			ks = append(ks, k)
		}
		sortStrings(ks)
		for b := 0; b < 2+rng.Intn(4); b++ {
			v := graph.M{}
			for d := 0; d < 1+rng.Intn(2); d++ {
				k := ks[rng.Intn(len(ks))]
				cm := graph.M{}
				coins := sdk.NewCoins()
				for _, dn := range denoms {
					if rng.Intn(2) == 0 {
						a := int64(1 + rng.Intn(2000))
						cm[dn] = a
						coins = coins.Add(sdk.NewCoin(dn, sdk.NewInt(a)))
					}
				}
				if len(cm) == 0 || v[k] != nil {
					continue
				}
				v[k] = cm
				if err := s.deposit(ctx, k, coins); err != nil {
					return nil, err
				}
			}
			emit(graph.M{"ev": "deposit", "v": v})
			ctx = ctx.WithBlockHeight(ctx.BlockHeight() + 1).WithBlockTime(ctx.BlockTime().Add(5 * time.Second))
			if p := env.Try(func() { cfedistributor.BeginBlocker(ctx, app.CfedistributorKeeper) }); p != "" {
				emit(graph.M{"ev": "panic", "detail": p})
				break
			}
			o := s.project(ctx)
			bal := graph.M{}
			for k, m := range o.Bal {
				cm := graph.M{}
				for d, a := range m {
					var x int64
					fmt.Sscan(a, &x)
					cm[d] = x
				}
				bal[k] = cm
			}
			rem := graph.M{}
			for k, m := range o.Rem {
				cm := graph.M{}
				for d, r := range m {
					sc := new(bigRat).Mul(r, newRat(P))
					if !sc.IsInt() {
						cm[d] = int64(-1)
					} else {
						cm[d] = sc.Num().Int64()
					}
				}
				rem[k] = cm
			}
			emit(graph.M{"ev": "block", "bal": bal, "rem": rem})
			st.Blocks++
		}
	}
	return st, nil
}

type bigRat = big.Rat

func newRat(p int64) *big.Rat { return big.NewRat(p, 1) }

func sortStrings(s []string) { sort.Strings(s) }

// HugeResult is the outcome of the real-magnitude distributor runs.
type HugeResult struct {
	Executed int            `json:"executed"`
	Samples  []graph.M      `json:"samples"`
	Findings []walkFinding  `json:"findings"`
	Kinds    map[string]int `json:"kinds"`
}

type walkFinding struct {
	Prop     string    `json:"prop"`
	Kind     string    `json:"kind"`
	Sig      string    `json:"sig"`
	Msg      string    `json:"msg"`
	Path     []graph.M `json:"path"`
	Expected any       `json:"expected,omitempty"`
	Observed any       `json:"observed,omitempty"`
}

// RunHuge runs random valid configurations with deposits around 2^63 and up to 10^30 base units through the
// real BeginBlocker: no panic (C10, e.g. int64 conversions) and the C03 identity evaluated on the real state.
func RunHuge(n int, seed int64) (*HugeResult, error) {
	const P = int64(64)
	b1, b2 := env.NewUser("b1"), env.NewUser("b2")
	e := env.New(env.Options{Users: []env.User{b1, b2}})
	s := &state{env: e, P: P, ids: map[string]string{"m1": dtypes.GreenEnergyBoosterCollector, "m2": dtypes.GovernanceBoosterCollector, "m3": dtypes.ValidatorsRewardsCollector,
		"b1": b1.Bech32(), "b2": b2.Bech32(), "i1": "internal_one", "i2": "internal_two"}, rids: map[string]string{}}
	for m, r := range s.ids {
		s.rids[r] = m
	}
	res := &HugeResult{Kinds: map[string]int{}}
	rng := rand.New(rand.NewSource(seed))
	app := e.App
	two63 := new(big.Int).Lsh(big.NewInt(1), 63)
	amounts := []*big.Int{new(big.Int).Sub(two63, big.NewInt(1)), two63, new(big.Int).Add(two63, big.NewInt(1)), new(big.Int).Lsh(big.NewInt(1), 64),
		new(big.Int).Exp(big.NewInt(10), big.NewInt(24), nil), new(big.Int).Exp(big.NewInt(10), big.NewInt(30), nil), new(big.Int).Mul(two63, big.NewInt(4)), big.NewInt(7)}
	for i := 0; i < n; i++ {
		var c []any
		var gen dtypes.GenesisState
		for {
			c = randDistCfg(rng, P)
			gen = dtypes.GenesisState{Params: dtypes.Params{SubDistributors: s.buildCfg(c)}}
			if gen.Validate() == nil {
				break
			}
		}
		ctx := env.Fork(e.Ctx)
		s.wipeStore(ctx)
		cfedistributor.InitGenesis(ctx, app.CfedistributorKeeper, gen, app.AccountKeeper)
		keys := []string{"MAIN"}
		for _, x := range c {
			for _, ax := range graph.List(graph.Rec(x)["sources"]) {
				a := graph.Rec(ax)
				if t := graph.Str(a["t"]); t == "MOD" || t == "BASE" {
					keys = append(keys, t+"-"+graph.Str(a["id"]))
				}
			}
		}
		desc := graph.M{"cfg": c}
		for b := 0; b < 3; b++ {
			k := keys[rng.Intn(len(keys))]
			amt := amounts[rng.Intn(len(amounts))]
			dn := []string{"uc4e", "stake"}[rng.Intn(2)]
			if err := s.deposit(ctx, k, sdk.NewCoins(sdk.NewCoin(dn, sdk.NewIntFromBigInt(amt)))); err != nil {
				return nil, err
			}
			ctx = ctx.WithBlockHeight(ctx.BlockHeight() + 1).WithBlockTime(ctx.BlockTime().Add(5 * time.Second))
			if p := env.Try(func() { cfedistributor.BeginBlocker(ctx, app.CfedistributorKeeper) }); p != "" {
				res.Findings = append(res.Findings, walkFinding{Prop: "C10", Kind: "panic", Sig: "num.dist.panic", Msg: fmt.Sprintf("BeginBlocker panicked with a deposit of %s%s on %s: %s", amt, dn, k, p), Path: []graph.M{desc}})
				break
			}
			res.Executed++
			if msg := s.booksPredicate(s.project(ctx)); msg != "" {
				res.Findings = append(res.Findings, walkFinding{Prop: "C03", Kind: "predicate", Sig: "num.dist.books", Msg: fmt.Sprintf("after a deposit of %s%s on %s: %s", amt, dn, k, msg), Path: []graph.M{desc}})
				break
			}
		}
		if len(res.Samples) < 3 {
			res.Samples = append(res.Samples, desc)
		}
	}
	return res, nil
}
