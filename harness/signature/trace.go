package signature

// Trace recording (implementation -> specification) for cfesignature: long random histories of publish /
// store / create-account messages and verify queries on the real handlers; spec/trace/Trace_Signature.tla
// validates the log against the actions and properties of Signature.tla.

import (
	"encoding/json"
	"fmt"
	"math/rand"
	"os"
	"sort"

	stypes "github.com/chain4energy/c4e-chain/x/cfesignature/types"
	"github.com/chain4energy/c4e-chain/x/cfesignature/util"
	sdk "github.com/cosmos/cosmos-sdk/types"

	"verif/harness/env"
	"verif/harness/graph"
	"verif/harness/walk"
)

type TraceStats struct {
	Traces   int            `json:"traces"`
	Events   int            `json:"events"`
	Counts   map[string]int `json:"counts"`
	Sample   []graph.M      `json:"sample"`
	Findings []walk.Finding `json:"findings,omitempty"`
}

var algOf = map[string]string{"k1": "ecdsaWithSha256", "k2": "sha256WithRsaEncryption", "k3": "sha256WithRsaEncryption"}

// RunTrace records n executions into out; hdr is a TLC output holding the header lines (trmeta).
func RunTrace(hdr, out string, n int, seed int64) (*TraceStats, error) {
	g, err := graph.Load(hdr, "configure")
	if err != nil {
		return nil, err
	}
	keysOnce.Do(genKeys)
	meta := graph.Rec(g.Header["trmeta"])
	strs := func(x any) []string {
		var o []string
		for _, v := range graph.List(x) {
			o = append(o, graph.Str(v))
		}
		sort.Strings(o)
		return o
	}
	addrs, refs, links, varKeys := strs(meta["Addrs"]), strs(meta["Refs"]), strs(meta["Links"]), strs(meta["VarKeys"])
	a2 := env.NewUser("a2")
	e := env.New(env.Options{Users: []env.User{a2}})
	s := &state{env: e, addr: map[string]string{}, ref: map[string]string{}, link: map[string]string{}, addrs: addrs, refs: refs}
	for _, a := range addrs {
		s.addr[a] = env.NewUser(a).Bech32()
	}
	for i, r := range refs {
		s.ref[r] = util.CalculateHash(fmt.Sprintf("reference-%d", i))
	}
	for i, l := range links {
		s.link[l] = util.CalculateHash("payload-link") + []string{"", ":", " ", "::"}[i%4]
	}
	f, err := os.Create(out)
	if err != nil {
		return nil, err
	}
	defer f.Close()
	enc := json.NewEncoder(f)
	st := &TraceStats{Counts: map[string]int{}}
	emit := func(m graph.M) {
		enc.Encode(m)
		st.Events++
		st.Counts["ev."+graph.Str(m["ev"])]++
		if len(st.Sample) < 8 && st.Events%9 == 2 {
			st.Sample = append(st.Sample, m)
		}
	}
	rng := rand.New(rand.NewSource(seed))
	pick := func(xs []string) string { return xs[rng.Intn(len(xs))] }
	keyNames := []string{"k1", "k2", "k3"} // ECDSA P-256, RSA-2048, RSA-3072
	for i := 0; i < n; i++ {
		ctx := env.Fork(e.Ctx)
		genesis := s.project(ctx).Accts // accounts as they are before the execution: must never change
		post := func() graph.M {
			o := s.project(ctx)
			if o.Err != "" {
				st.Findings = append(st.Findings, walk.Finding{Prop: "C20", Kind: "panic", Sig: "trace.sig.read.panic", Msg: o.Err})
			}
			lk := graph.M{}
			for r, v := range o.Links {
				lk[r] = v
			}
			sg := graph.M{}
			for a, m := range o.Sigs {
				for r, v := range m {
					sg[a+"/"+r] = v
				}
			}
			ac := graph.M{}
			for _, a := range addrs {
				switch {
				case o.Accts[a] == "none":
					ac[a] = "none"
				case genesis[a] != "none" && o.Accts[a] == genesis[a]:
					ac[a] = "orig"
				case genesis[a] != "none":
					ac[a] = "altered"
				default:
					ac[a] = "created"
				}
			}
			return graph.M{"links": lk, "sigs": sg, "accts": ac}
		}
		if i > 0 {
			emit(graph.M{"ev": "reset"})
		}
		emit(graph.M{"ev": "configure"})
		st.Traces++
		creator := s.addr["a2"]
		published := map[string]string{} // reference id -> link name, as far as the driver knows (to aim stores at it)
		var pubRefs []string
		var stored [][2]string
		for step := 0; step < 20+rng.Intn(20); step++ {
			switch k := rng.Intn(10); {
			case k < 3:
				r := pick(refs)
				if rng.Intn(4) == 0 {
					r = pick(varKeys)
				}
				l := pick(links)
				outcome, detail := s.direct(ctx, &stypes.MsgPublishReferencePayloadLink{Creator: creator, Key: s.linkKey(r), Value: s.link[l]})
				if outcome == "panic" {
					st.Findings = append(st.Findings, walk.Finding{Prop: "C20", Kind: "panic", Sig: "trace.sig.publish.panic", Msg: detail})
					outcome = "rejected"
				}
				if outcome == "ok" {
					if _, have := published[r]; !have {
						published[r] = l
						if _, isRef := s.ref[r]; isRef {
							pubRefs = append(pubRefs, r)
						}
					}
				}
				st.Counts["publish."+outcome]++
				emit(graph.M{"ev": "publish", "r": r, "l": l, "ok": outcome == "ok", "post": post()})
			case k < 6:
				a, r := pick(addrs), pick(refs)
				if len(pubRefs) > 0 && rng.Intn(4) > 0 {
					r = pick(pubRefs) // mostly: a reference id whose link is published
				}
				signer := pick(keyNames)
				l := pick(links)
				if pl, ok := published[r]; ok && rng.Intn(4) > 0 {
					l = pl
				}
				rec := graph.M{"signer": signer, "over": []any{a, r, l}, "alg": algOf[signer], "cert": signer, "wellformed": true}
				// mostly valid records; sometimes one field is wrong
				switch rng.Intn(9) {
				case 0:
					rec["cert"] = pick(keyNames)
				case 1:
					rec["alg"] = pick([]string{"ecdsaWithSha256", "sha256WithRsaEncryption", "dsaWithSha256", "bogus"})
				case 2:
					rec["over"] = []any{pick(addrs), r, l}
				case 3:
					rec["over"] = []any{a, pick(refs), l}
				case 4:
					rec["wellformed"] = false
				case 5:
					rec["cert"] = "nocert"
				}
				kind := "ok"
				if rng.Intn(12) == 0 {
					kind = "malformed"
				}
				outcome, detail := s.direct(ctx, &stypes.MsgStoreSignature{Creator: creator, StorageKey: s.storageKey(a, r), SignatureJSON: s.sigJSON(rec, kind)})
				if outcome == "panic" {
					st.Findings = append(st.Findings, walk.Finding{Prop: "C20", Kind: "panic", Sig: "trace.sig.store.panic", Msg: detail})
					outcome = "rejected"
				}
				if outcome == "ok" {
					stored = append(stored, [2]string{a, r})
				}
				st.Counts["store."+outcome]++
				emit(graph.M{"ev": "store", "a": a, "r": r, "rec": rec, "json": kind, "ok": outcome == "ok", "post": post()})
			case k < 7:
				a := pick(addrs)
				pkn := "pk1"
				pk := "this is not a public key"
				if rng.Intn(5) > 0 {
					bz, err := e.App.AppCodec().MarshalInterfaceJSON(newPK)
					if err != nil {
						return nil, err
					}
					pk = string(bz)
				} else {
					pkn = "malformed"
				}
				outcome, detail := s.direct(ctx, &stypes.MsgCreateAccount{Creator: creator, AccAddressString: s.a(a), PubKeyString: pk})
				if outcome == "panic" {
					st.Findings = append(st.Findings, walk.Finding{Prop: "C20", Kind: "panic", Sig: "trace.sig.createaccount.panic", Msg: detail})
					outcome = "rejected"
				}
				st.Counts["createaccount."+outcome]++
				emit(graph.M{"ev": "createaccount", "a": a, "pk": pkn, "ok": outcome == "ok", "post": post()})
			default:
				a, r := pick(addrs), pick(refs)
				if len(stored) > 0 && rng.Intn(4) > 0 {
					x := stored[rng.Intn(len(stored))]
					a, r = x[0], x[1]
				}
				var resp *stypes.QueryVerifySignatureResponse
				var verr error
				if p := env.Try(func() {
					resp, verr = e.App.CfesignatureKeeper.VerifySignature(sdk.WrapSDKContext(ctx), &stypes.QueryVerifySignatureRequest{TargetAccAddress: s.a(a), ReferenceId: s.ref[r]})
				}); p != "" {
					st.Findings = append(st.Findings, walk.Finding{Prop: "C20", Kind: "panic", Sig: "trace.sig.verify.panic", Msg: "VerifySignature panicked: " + p})
					continue
				}
				valid := verr == nil && resp != nil && resp.Valid == "valid"
				ev := graph.M{"ev": "verify", "a": a, "r": r, "valid": valid, "alg": "", "cert": "", "echo": true}
				if valid {
					// which stored record is echoed: algorithm, certificate (by name) and the signature / timestamp of the store
					cn := "?"
					for n, kk := range keys {
						if kk.certPEM == resp.Certificate {
							cn = n
						}
					}
					ev["alg"], ev["cert"] = resp.Algorithm, cn
					if stg, gerr := e.App.CfesignatureKeeper.GetSignature(ctx, s.storageKey(a, r)); gerr != nil || stg.Signature != resp.Signature || stg.Timestamp != resp.Timestamp {
						ev["echo"] = false
					}
				}
				st.Counts[fmt.Sprintf("verify.%v", valid)]++
				emit(ev)
			}
		}
	}
	return st, nil
}
