// Package signature binds spec/Signature.tla to x/cfesignature; abstract keys are
// concretised with generated ECDSA P-256 and RSA-2048 certificates.
package signature

import (
	"crypto"
	"crypto/ecdsa"
	"crypto/elliptic"
	"crypto/rand"
	"crypto/rsa"
	"crypto/sha256"
	"crypto/x509"
	"crypto/x509/pkix"
	"encoding/base64"
	"encoding/json"
	"encoding/pem"
	"fmt"
	"math/big"
	"strings"
	"sync"
	"time"

	"github.com/chain4energy/c4e-chain/x/cfesignature"
	skeeper "github.com/chain4energy/c4e-chain/x/cfesignature/keeper"
	stypes "github.com/chain4energy/c4e-chain/x/cfesignature/types"
	"github.com/chain4energy/c4e-chain/x/cfesignature/util"
	"github.com/cosmos/cosmos-sdk/crypto/keys/secp256k1"
	sdk "github.com/cosmos/cosmos-sdk/types"

	"verif/harness/env"
	"verif/harness/graph"
	"verif/harness/walk"
)

type key struct {
	signer  crypto.Signer
	certPEM string
}

var (
	keysOnce sync.Once
	keys     map[string]*key
)

func selfSigned(signer crypto.Signer, cn string) string {
	tmpl := &x509.Certificate{SerialNumber: big.NewInt(1), Subject: pkix.Name{CommonName: cn}, NotBefore: time.Unix(0, 0), NotAfter: time.Unix(4102444800, 0),
		KeyUsage: x509.KeyUsageDigitalSignature}
	der, err := x509.CreateCertificate(rand.Reader, tmpl, tmpl, signer.Public(), signer)
	if err != nil {
		panic(err)
	}
	return string(pem.EncodeToMemory(&pem.Block{Type: "CERTIFICATE", Bytes: der}))
}

func genKeys() {
	ec, err := ecdsa.GenerateKey(elliptic.P256(), rand.Reader)
	if err != nil {
		panic(err)
	}
	rs, err := rsa.GenerateKey(rand.Reader, 2048)
	if err != nil {
		panic(err)
	}
	rs3, err := rsa.GenerateKey(rand.Reader, 3072)
	if err != nil {
		panic(err)
	}
	keys = map[string]*key{"k1": {ec, selfSigned(ec, "k1")}, "k2": {rs, selfSigned(rs, "k2")}, "k3": {rs3, selfSigned(rs3, "k3")}}
}

func sign(k *key, payload string) string {
	digest := sha256.Sum256([]byte(payload))
	sig, err := k.signer.Sign(rand.Reader, digest[:], crypto.SHA256)
	if err != nil {
		panic(err)
	}
	return base64.StdEncoding.EncodeToString(sig)
}

type state struct {
	env   *env.Env
	addr  map[string]string
	ref   map[string]string
	link  map[string]string
	addrs []string
	refs  []string
}

func (s *state) a(n string) string {
	if v, ok := s.addr[n]; ok {
		return v
	}
	return "notanaddress"
}

func (s *state) storageKey(a, r string) string {
	return util.CalculateHash(util.HashConcat(s.a(a), s.ref[r]))
}

func (s *state) sigJSON(rec graph.M, kind string) string {
	switch kind {
	case "malformed":
		return "{\"signature\": "
	case "missingfields":
		return "{}"
	}
	over := graph.List(rec["over"])
	payload := util.CalculateHash(util.HashConcat(s.a(graph.Str(over[0])), s.ref[graph.Str(over[1])], s.link[graph.Str(over[2])]))
	sig := "!!not-base64!!"
	if graph.Bool(rec["wellformed"]) {
		sig = sign(keys[graph.Str(rec["signer"])], payload)
	}
	cert := "this is not a certificate"
	if k, ok := keys[graph.Str(rec["cert"])]; ok {
		cert = k.certPEM
	}
	b, _ := json.Marshal(map[string]string{"signature": sig, "algorithm": graph.Str(rec["alg"]), "certificate": cert})
	return string(b)
}

type obs struct {
	Links map[string]string
	Sigs  map[string]map[string]string // a -> r -> "alg|certname"
	Accts map[string]string
	Err   string // a read of the real state panicked
}

func (s *state) project(ctx sdk.Context) obs {
	k := s.env.App.CfesignatureKeeper
	o := obs{Links: map[string]string{}, Sigs: map[string]map[string]string{}, Accts: map[string]string{}}
	rlink := map[string]string{}
	for n, v := range s.link {
		rlink[v] = n
	}
	for _, r := range s.refs {
		if v, err := k.GetPayloadLink(ctx, s.ref[r]); err == nil {
			if n, ok := rlink[v]; ok {
				o.Links[r] = n
			} else {
				o.Links[r] = "?" + v
			}
		}
	}
	for _, a := range s.addrs {
		for _, r := range s.refs {
			var sg *stypes.Signature
			var err error
			if p := env.Try(func() { sg, err = k.GetSignature(ctx, s.storageKey(a, r)) }); p != "" {
				o.Err = fmt.Sprintf("reading the stored signature of (%s,%s) panicked: %s", a, r, p)
				continue
			}
			if err != nil {
				continue
			}
			cn := ""
			for n, kk := range keys {
				if kk.certPEM == sg.Certificate {
					cn = n
				}
			}
			if cn == "" && sg.Certificate == "this is not a certificate" {
				cn = "nocert"
			}
			if o.Sigs[a] == nil {
				o.Sigs[a] = map[string]string{}
			}
			o.Sigs[a][r] = sg.Algorithm + "|" + cn
		}
		addr, _ := sdk.AccAddressFromBech32(s.addr[a])
		acc := s.env.App.AccountKeeper.GetAccount(ctx, addr)
		if acc == nil {
			o.Accts[a] = "none"
		} else {
			pk := ""
			if acc.GetPubKey() != nil {
				pk = fmt.Sprintf("%X", acc.GetPubKey().Bytes())
			}
			o.Accts[a] = fmt.Sprintf("%T num=%d seq=%d pk=%s", acc, acc.GetAccountNumber(), acc.GetSequence(), pk)
		}
	}
	return o
}

func (s *state) direct(ctx sdk.Context, msg sdk.Msg) (outcome, detail string) {
	if p := env.Try(func() {
		if err := msg.ValidateBasic(); err != nil {
			outcome, detail = "rejected", "validate-basic: "+err.Error()
		}
	}); p != "" {
		return "panic", "validate-basic: " + p
	}
	if outcome != "" {
		return
	}
	srv := skeeper.NewMsgServerImpl(s.env.App.CfesignatureKeeper)
	cctx, write := ctx.CacheContext()
	var err error
	if p := env.Try(func() {
		switch m := msg.(type) {
		case *stypes.MsgPublishReferencePayloadLink:
			_, err = srv.PublishReferencePayloadLink(sdk.WrapSDKContext(cctx), m)
		case *stypes.MsgStoreSignature:
			_, err = srv.StoreSignature(sdk.WrapSDKContext(cctx), m)
		case *stypes.MsgCreateAccount:
			_, err = srv.CreateAccount(sdk.WrapSDKContext(cctx), m)
		}
	}); p != "" {
		return "panic", "handler: " + p
	}
	if err != nil {
		return "rejected", "handler: " + err.Error()
	}
	write()
	return "ok", ""
}

func (s *state) wipeStore(ctx sdk.Context) {
	store := ctx.KVStore(s.env.App.GetKey(stypes.StoreKey))
	it := store.Iterator(nil, nil)
	var ks [][]byte
	for ; it.Valid(); it.Next() {
		ks = append(ks, append([]byte{}, it.Key()...))
	}
	it.Close()
	for _, k := range ks {
		store.Delete(k)
	}
}

var newPK = secp256k1.GenPrivKeyFromSecret([]byte("verif-created-account")).PubKey()

func apply(w *walk.Worker, ctx sdk.Context, e *graph.Edge, path []*graph.Edge, g *graph.Graph) (sdk.Context, []walk.Finding, bool) {
	s := w.State.(*state)
	app := s.env.App
	k := app.CfesignatureKeeper
	act := e.Act
	exp := g.States[e.To]
	name := graph.Str(act["name"])
	var fs []walk.Finding
	fail := func(prop, kind, sig, msg string, ex, ob any) {
		fs = append(fs, walk.Finding{Prop: prop, Kind: kind, Sig: sig, Msg: msg, Path: walk.PathActs(path), Expected: ex, Observed: ob})
	}
	w.Count("act." + name)
	creator := s.addr["a2"]
	pre := s.project(ctx)
	want := "rejected"
	if graph.Bool(act["ok"]) {
		want = "ok"
	}
	// The application does not register the cfesignature Msg service with the router (module.go registers
	// only the query server), so the handlers are reachable only through keeper.NewMsgServerImpl: call it
	// the way baseapp would (ValidateBasic, cache context, write-back on success).
	deliver := func(prop string, msg sdk.Msg) bool {
		outcome, detail := s.direct(ctx, msg)
		if outcome == "panic" {
			fail("C20", "panic", "sig.panic."+name, "message panicked: "+detail, want, outcome)
			return false
		}
		if outcome != want {
			fail(prop, "outcome", "sig.outcome."+name, "accept/reject differs from the model ("+detail+")", want, outcome)
			return false
		}
		return true
	}
	switch name {
	case "publish":
		if !deliver("C15", &stypes.MsgPublishReferencePayloadLink{Creator: creator, Key: s.linkKey(graph.Str(act["r"])), Value: s.link[graph.Str(act["l"])]}) {
			return ctx, fs, true
		}
	case "store":
		if !deliver("C15", &stypes.MsgStoreSignature{Creator: creator, StorageKey: s.storageKey(graph.Str(act["a"]), graph.Str(act["r"])),
			SignatureJSON: s.sigJSON(graph.Rec(act["rec"]), graph.Str(act["json"]))}) {
			return ctx, fs, true
		}
	case "createaccount":
		pk := "this is not a public key"
		if graph.Str(act["pk"]) == "pk1" {
			bz, err := app.AppCodec().MarshalInterfaceJSON(newPK)
			if err != nil {
				panic(err)
			}
			pk = string(bz)
		}
		if !deliver("C09", &stypes.MsgCreateAccount{Creator: creator, AccAddressString: s.a(graph.Str(act["a"])), PubKeyString: pk}) {
			return ctx, fs, true
		}
	case "verify":
		a, r := graph.Str(act["a"]), graph.Str(act["r"])
		res := graph.Rec(act["res"])
		var resp *stypes.QueryVerifySignatureResponse
		var err error
		if p := env.Try(func() {
			resp, err = k.VerifySignature(sdk.WrapSDKContext(ctx), &stypes.QueryVerifySignatureRequest{TargetAccAddress: s.a(a), ReferenceId: s.ref[r]})
		}); p != "" {
			fail("C20", "panic", "sig.panic.verify", "VerifySignature panicked: "+p, nil, p)
			return ctx, fs, true
		}
		valid := err == nil && resp != nil && resp.Valid == "valid"
		if valid != graph.Bool(res["valid"]) {
			fail("C15", "mismatch", "sig.verify.verdict", fmt.Sprintf("verification verdict differs from the model (err=%v)", err), res["valid"], valid)
		} else if valid {
			st, gerr := k.GetSignature(ctx, s.storageKey(a, r))
			if gerr != nil {
				fail("C15", "mismatch", "sig.verify.nostored", "valid verdict without stored signature", nil, nil)
			} else {
				if resp.Signature != st.Signature || resp.Algorithm != st.Algorithm || resp.Timestamp != st.Timestamp {
					fail("C15", "mismatch", "sig.verify.echo", "verification does not return the stored signature / algorithm / timestamp unchanged", nil, nil)
				}
				if resp.Certificate != st.Certificate {
					fail("C15", "mismatch", "sig.verify.echo-certificate", "verification does not return the stored certificate", short(st.Certificate), short(resp.Certificate))
				}
			}
		}
	case "export":
		var gen *stypes.GenesisState
		if p := env.Try(func() { gen = cfesignature.ExportGenesis(ctx, k) }); p != "" {
			fail("C12", "panic", "sig.export.panic", "ExportGenesis panicked: "+p, nil, p)
			return ctx, fs, true
		}
		if err := gen.Validate(); err != nil {
			fail("C12", "predicate", "sig.export.invalid", "exported genesis does not validate: "+err.Error(), nil, nil)
		}
		s.wipeStore(ctx)
		if p := env.Try(func() { cfesignature.InitGenesis(ctx, k, *gen) }); p != "" {
			fail("C12", "panic", "sig.import.panic", "InitGenesis panicked: "+p, nil, p)
			return ctx, fs, true
		}
	}
	o := s.project(ctx)
	if o.Err != "" {
		fail("C20", "panic", "sig.panic.read."+name, o.Err, nil, nil)
		return ctx, fs, true
	}
	// --- C15 directly on the real store: a published link is never overwritten or removed (export is judged by C12)
	if name != "export" {
		for r, l := range pre.Links {
			if o.Links[r] != l {
				fail("C15", "predicate", "sig.link-overwritten."+name, "a published payload link was overwritten or removed: "+r, l, o.Links[r])
			}
		}
		// --- C09: existing accounts untouched
		for a, before := range pre.Accts {
			if before != "none" && o.Accts[a] != before {
				fail("C09", "predicate", "sig.account-altered."+name, "an existing account was replaced or altered: "+a, before, o.Accts[a])
			}
		}
	}
	// --- comparison with the model
	owner := map[string]string{"publish": "C15", "store": "C15", "verify": "C15", "createaccount": "C09", "export": "C12"}[name]
	el, _ := exp["links"].(graph.M)
	for _, r := range s.refs {
		if graph.Str(el[r]) != o.Links[r] {
			fail(owner, "mismatch", "sig.links."+name, "payload link of "+r+" differs from the model", graph.Str(el[r]), o.Links[r])
		}
	}
	es, _ := exp["sigs"].(graph.M)
	for _, a := range s.addrs {
		ea, _ := es[a].(graph.M)
		for _, r := range s.refs {
			wantS := ""
			if rec, ok := ea[r].(graph.M); ok {
				wantS = graph.Str(rec["alg"]) + "|" + graph.Str(rec["cert"])
			}
			if wantS != o.Sigs[a][r] {
				fail(owner, "mismatch", "sig.sigs."+name, fmt.Sprintf("stored signature of (%s,%s) differs from the model", a, r), wantS, o.Sigs[a][r])
			}
		}
	}
	eac := graph.Rec(exp["accts"])
	for _, a := range s.addrs {
		kind := graph.Str(graph.Rec(eac[a])["k"])
		got := o.Accts[a]
		switch kind {
		case "none":
			if got != "none" {
				fail("C09", "mismatch", "sig.accts."+name, "account "+a+" exists but the model has none", "none", got)
			}
		case "created":
			if got == "none" || !strings.Contains(got, fmt.Sprintf("pk=%X", newPK.Bytes())) {
				fail("C09", "mismatch", "sig.accts."+name, "account "+a+" was not created with the requested public key", "created", got)
			}
		case "orig":
			if got == "none" {
				fail("C09", "mismatch", "sig.accts."+name, "pre-existing account "+a+" disappeared", "orig", got)
			}
		}
	}
	return ctx, fs, len(fs) > 0
}

func short(s string) string {
	if len(s) > 40 {
		return s[:40] + "..."
	}
	return s
}

// linkKey is the store key of a model key: the hash of the reference id, or - for the model's other keys "<ref>^U", "<ref>^S" -
// a string that is no reference id's hash but as close to one as a signer can make it (upper case, trailing space).
func (s *state) linkKey(name string) string {
	if strings.HasSuffix(name, "^K") {
		// the key under which a signature of (address, reference id) is stored: links and signatures must stay apart
		ar := strings.SplitN(strings.TrimSuffix(name, "^K"), ":", 2)
		return s.storageKey(ar[0], ar[1])
	}
	if i := strings.Index(name, "^"); i >= 0 {
		h := util.CalculateHash(s.ref[name[:i]])
		switch name[i+1:] {
		case "U":
			return strings.ToUpper(h)
		case "S":
			return h + " "
		}
		return h + name[i:]
	}
	return util.CalculateHash(s.ref[name])
}

func Run(file string, workers int, budget time.Duration, walks, depth int, seed int64) (*walk.Result, error) {
	g, err := graph.Load(file, "configure")
	if err != nil {
		return nil, err
	}
	keysOnce.Do(genKeys)
	meta := graph.Rec(g.Header["meta"])
	newWorker := func(id int) (*walk.Worker, sdk.Context) {
		a2 := env.NewUser("a2")
		e := env.New(env.Options{Users: []env.User{a2}})
		st := &state{env: e, addr: map[string]string{"a1": env.NewUser("a1").Bech32(), "a2": a2.Bech32()}, ref: map[string]string{}, link: map[string]string{}}
		for _, a := range graph.List(meta["Addrs"]) {
			st.addrs = append(st.addrs, graph.Str(a))
		}
		for i, r := range graph.List(meta["Refs"]) {
			st.refs = append(st.refs, graph.Str(r))
			st.ref[graph.Str(r)] = util.CalculateHash(fmt.Sprintf("reference-%d", i))
		}
		// distinct model links are concretised adversarially close: the second is the first plus the separator
		// character of the hash input, the third the first plus a space (free text is allowed as link value)
		for i, l := range graph.List(meta["Links"]) {
			st.link[graph.Str(l)] = util.CalculateHash("payload-link") + []string{"", ":", " ", "::"}[i%4]
		}
		return &walk.Worker{ID: id, State: st, Counters: map[string]int{}}, e.Ctx
	}
	res := walk.Run(walk.Config{G: g, Workers: workers, NewWorker: newWorker, Budget: budget, Walks: walks, WalkDepth: depth, Seed: seed,
		Apply: func(w *walk.Worker, ctx sdk.Context, e *graph.Edge, path []*graph.Edge) (sdk.Context, []walk.Finding, bool) {
			return apply(w, ctx, e, path, g)
		}})
	for i, e := range g.Edges {
		if i%(len(g.Edges)/5+1) == 0 {
			res.Samples = append(res.Samples, graph.M{"act": e.Act, "post": g.States[e.To]})
		}
	}
	return res, nil
}
