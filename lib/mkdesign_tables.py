#!/usr/bin/env python3
"""Regenerates the two generated tables of DESIGN.md (per property as built; quick tier numbers from evidence/*.json)."""
import glob, json, os, sys
VERIF = os.path.dirname(os.path.dirname(os.path.abspath(__file__)))
sys.path.insert(0, os.path.join(VERIF, "lib"))
import registry

props = [json.loads(l) for l in open(os.path.join(VERIF, "properties.jsonl"))]
rows = []
for p in props:
    st = registry.PROPS[p["id"]]["stages"]
    names = lambda kinds: ", ".join(s["name"] for s in st if s["kind"] in kinds) or "—"
    rows.append("| %s | %s | %s | %s | %s |" % (p["id"], names(("mc",)), names(("mbt", "replicas")), names(("trace",)), names(("num",))))
t1 = """### Per property, as built (generated from `lib/registry.py`)

Every stage of a property runs in both tiers (the thorough tier with the larger configuration / more executions; a
stage without a thorough configuration runs its quick one there; `dist-single` exists in the thorough tier only); a
finding of any stage that belongs to the property fails the check.

| property | model checking only (TLC) | S→I: model transitions executed on the real code | I→S: recorded executions validated by TLC | numeric (Apalache at P = 10^18 / real magnitudes) |
|---|---|---|---|---|
""" + "\n".join(rows) + "\n\n"
rows = []
for f in sorted(glob.glob(os.path.join(VERIF, "evidence", "C*.json"))):
    e = json.load(open(f)); c = e["coverage"]
    tr = sum((s.get("recorder") or {}).get("events", 0) for s in c["stages"] if s.get("kind") == "trace")
    num = sum((s.get("numeric") or {}).get("executed", 0) for s in c["stages"] if s.get("kind") == "num")
    rows.append("| %s | %d | %d | %d | %d | %d | %.0f s |" % (e["property_id"], c["states"], c["transitions"], c["traces_validated_against_impl"], tr, num, e["wall_s"]))
t2 = """### Quick tier on the unchanged tree, last committed run (from `evidence/*.json`)

| property | TLC distinct states | TLC transitions | executed on the real code (model transitions + recorded events + numeric steps) | of which recorded trace events validated by TLC | numeric / real-magnitude steps | wall time |
|---|---|---|---|---|---|---|
""" + "\n".join(rows) + "\n\n"
p = os.path.join(VERIF, "DESIGN.md")
s = open(p).read()
a = s.index("### Quick tier on the unchanged tree, last committed run")
b = s.index("### Second binding direction")
s = s[:a] + t2 + t1 + s[b:]
open(p, "w").write(s)
print("DESIGN.md tables regenerated")
