"""Per-property registry: which TLC configurations and harness modes decide each property."""

MINTER = ["DecArith.tla", "MinterMath.tla", "Minter.tla", "mc/MC_Minter.tla", "mc/MBT_Minter.tla"]


def mc(name, files, module, quick, thorough=None, **kw):
    s = {"name": name, "kind": "mc", "files": files, "module": module, "quick": dict(cfg=quick, **kw)}
    if thorough:
        s["thorough"] = dict(cfg=thorough, **kw)
        s["thorough"]["timeout"] = 3000
        s["thorough"]["workers"] = 16
        s["thorough"]["heap"] = "10g"
    return s


def mbt(name, files, module, harness, quick, thorough=None, qopts=None, topts=None, require=None):
    s = {"name": name, "kind": "mbt", "files": files, "module": module, "harness": harness, "require": require or [],
         "quick": {**dict(cfg=quick, walks=200, depth=8), **(qopts or {})}}
    if thorough:
        s["thorough"] = {**dict(cfg=thorough, walks=4000, depth=12, timeout=3000, hworkers=16, heap="10g"), **(topts or {})}
    return s


MINTER_MC = mc("minter-mc", MINTER, "MC_Minter.tla", "mc/MC_Minter_quick.cfg", "mc/MC_Minter_thorough.cfg")
MINTER_SCHED = mbt("minter-sched", MINTER, "MBT_Minter.tla", "minter", "mc/MBT_Minter_sched_quick.cfg", "mc/MBT_Minter_sched_thorough.cfg",
                   require=["act.block", "act.export", "act.configure"])
MINTER_UPD = mbt("minter-upd", MINTER, "MBT_Minter.tla", "minter", "mc/MBT_Minter_upd_quick.cfg", "mc/MBT_Minter_upd_thorough.cfg",
                 require=["act.block", "act.export", "outcome.update.ok", "outcome.update.rejected"])

DIST = ["DecArith.tla", "Distributor.tla", "mc/MC_Distributor.tla", "mc/MBT_Distributor.tla"]
DIST_MC = mc("dist-mc", DIST, "MC_Distributor.tla", "mc/MC_Distributor_quick.cfg", "mc/MC_Distributor_thorough.cfg")
DIST_MC_FAULTS = mc("dist-mc-faults", DIST, "MC_Distributor.tla", "mc/MC_Distributor_faults_quick.cfg")
DIST_CUR = mbt("dist-curated", DIST, "MBT_Distributor.tla", "distributor", "mc/MBT_Distributor_quick.cfg", "mc/MBT_Distributor_faults_thorough.cfg",
               require=["act.block", "act.deposit", "act.export", "block.faulty"])
DIST_MULTI = mbt("dist-multidenom", DIST, "MBT_Distributor.tla", "distributor", "mc/MBT_Distributor_multi_quick.cfg", "mc/MBT_Distributor_multi_quick.cfg")
DIST_UPD = mbt("dist-upd", DIST, "MBT_Distributor.tla", "distributor", "mc/MBT_Distributor_upd_quick.cfg", "mc/MBT_Distributor_upd_quick.cfg",
               require=["act.block"] + ["outcome.update.%s.%s" % (k, o) for k in ("params", "sub", "burn", "share") for o in ("ok", "rejected")])
DIST_SINGLE = {"name": "dist-single", "kind": "mbt", "files": DIST, "module": "MBT_Distributor.tla", "harness": "distributor",
               "thorough": dict(cfg="mc/MBT_Distributor_single_thorough.cfg", walks=2000, depth=10, timeout=3000, hworkers=16, heap="10g", workers=16)}

VEST = ["DecArith.tla", "VestingMath.tla", "Vesting.tla", "mc/MC_Vesting.tla", "mc/MBT_Vesting.tla"]
VEST_MC = mc("vesting-mc", VEST, "MC_Vesting.tla", "mc/MC_Vesting_quick.cfg", "mc/MC_Vesting_thorough.cfg")
VEST_POOLS = mbt("vesting-pools", VEST, "MBT_Vesting.tla", "vesting", "mc/MBT_Vesting_pools_quick.cfg", "mc/MBT_Vesting_pools_thorough.cfg",
                 require=["outcome.%s.%s" % (m, o) for m in ("createpool", "withdraw", "send", "updatedenom") for o in ("ok", "rejected")] + ["act.advance", "act.export", "act.delegate"])
VEST_ACCTS = mbt("vesting-accounts", VEST, "MBT_Vesting.tla", "vesting", "mc/MBT_Vesting_accounts_quick.cfg", "mc/MBT_Vesting_accounts_thorough.cfg",
                 require=["outcome.%s.%s" % (m, o) for m in ("createacc", "split", "move", "movedenoms", "updatedenom", "send") for o in ("ok", "rejected")] + ["act.advance", "act.export", "act.delegate"])
VEST_TWO = mbt("vesting-two-denoms", VEST, "MBT_Vesting.tla", "vesting", "mc/MBT_Vesting_two_quick.cfg", "mc/MBT_Vesting_two_quick.cfg",
               require=["outcome.%s.%s" % (m, o) for m in ("createacc", "split", "movedenoms", "updatedenom") for o in ("ok", "rejected")] + ["outcome.move.ok"])

SIG = ["Signature.tla", "mc/MBT_Signature.tla"]
SIG_MBT = mbt("signature", SIG, "MBT_Signature.tla", "signature", "mc/MBT_Signature_quick.cfg", "mc/MBT_Signature_thorough.cfg")

CHAIN = ["DecArith.tla", "MinterMath.tla", "Minter.tla", "Distributor.tla", "Chain.tla", "mc/MBT_Chain.tla"]
CHAIN_MBT = mbt("chain", CHAIN, "MBT_Chain.tla", "chain", "mc/MBT_Chain_quick.cfg", "mc/MBT_Chain_thorough.cfg", qopts={"budget": "100s", "walks": 50}, topts={"budget": "900s"})
CHAIN_REPL = {"name": "chain-replicas", "kind": "replicas", "files": CHAIN, "module": "MBT_Chain.tla",
              "quick": dict(cfg="mc/MBT_Chain_quick.cfg", histories=40, depth=14, repeat=3),
              "thorough": dict(cfg="mc/MBT_Chain_thorough.cfg", histories=300, depth=20, repeat=10, timeout=3000, heap="10g", workers=16)}

UPG = ["Upgrade.tla", "mc/MBT_Upgrade.tla"]
UPG_MBT = mbt("upgrade", UPG, "MBT_Upgrade.tla", "upgrade", "mc/MBT_Upgrade_quick.cfg", "mc/MBT_Upgrade_thorough.cfg", qopts={"walks": 0}, topts={"walks": 0})

HOST = ["Hostile.tla", "mc/MBT_Hostile.tla"]
HOST_MBT = mbt("hostile", HOST, "MBT_Hostile.tla", "hostile", "mc/MBT_Hostile_quick.cfg", "mc/MBT_Hostile_quick.cfg", qopts={"walks": 0}, topts={"walks": 0})

SPLITF = ["DecArith.tla", "VestingMath.tla", "mc/MC_Split.tla"]
SPLIT_DRIFT = mc("split-drift-mc", SPLITF, "MC_Split.tla", "mc/MC_Split_drift.cfg")
SPLIT_NUM = {"name": "vesting-numeric", "kind": "num", "files": SPLITF, "module": "MC_Split.tla", "harness": "numvesting",
             "quick": dict(cfg="mc/MC_Split_quick.cfg", steps=800, apalache_steps=60, workers=4),
             "thorough": dict(cfg="mc/MC_Split_thorough.cfg", steps=6000, apalache_steps=1200, apalache_timeout=2400, workers=8, timeout=1800)}

MINTER_TRACE = {"name": "minter-trace", "kind": "trace", "files": ["DecArith.tla", "MinterMath.tla", "Minter.tla", "trace/Trace_Minter.tla"], "module": "trace/Trace_Minter.tla",
                "cfg": "trace/Trace_Minter.cfg", "recorder": "trace-minter", "corrupt_event": "block", "corrupt_field": "total",
                "default_owner": "C02", "event_owner": {"block": "C02", "update": "C13", "configure": "C13"},
                "invariant_owner": {"ScheduleConformance": "C02", "LinearExact": "C02", "CarryOK": "C02", "NonNegBlock": "C02", "NeverHalts": "C10",
                                    "CurrentPeriodExists": "C13", "StoredParamsValid": "C13", "TypeOK": "C02"},
                "quick": dict(traces=300), "thorough": dict(traces=4000, timeout=3000)}

DIST_TRACE = {"name": "dist-trace", "kind": "trace", "files": ["DecArith.tla", "Distributor.tla", "trace/Trace_Distributor.tla"], "module": "trace/Trace_Distributor.tla",
              "cfg": "trace/Trace_Distributor.cfg", "recorder": "trace-distributor", "corrupt_event": "deposit", "corrupt_field": None,
              "default_owner": "C04", "event_owner": {"block": "C04", "panic": "C10", "configure": "C13", "deposit": "C04"},
              "invariant_owner": {"NonNegative": "C03", "BooksMatch": "C03", "Conservation": "C03", "ShareExact": "C04", "PaidUp": "C04", "NeverHalts": "C10",
                                  "StoredParamsValid": "C13", "EventsAddUp": "C18"},
              "quick": dict(traces=150), "thorough": dict(traces=3000, timeout=3000)}

VESTF = ["DecArith.tla", "VestingMath.tla", "Vesting.tla", "mc/MC_Vesting.tla"]
VEST_TRACE = {"name": "vesting-trace", "kind": "trace", "files": VESTF + ["trace/Trace_Vesting.tla"], "module": "trace/Trace_Vesting.tla",
              "cfg": "trace/Trace_Vesting.cfg", "recorder": "trace-vesting", "corrupt_event": "msg", "corrupt_field": None, "corrupt_path": ["post", "modBal"],
              "diag_owner": [("ok", None), ("vdenom", "C13"), ("events", "C18"), ("pools", "C05"), ("modBal", "C05"), ("acct", None), ("locked", None), ("bal", None), ("traces", "C17"), ("summary", "C17")],
              "header": {"files": VESTF + ["mc/MBT_Vesting.tla"], "module": "mc/MBT_Vesting.tla", "cfg": "mc/MBT_Vesting_header.cfg"},
              "default_owner": "C05", "event_owner": {"msg": "C05", "delegate": "C07", "configure": "C05", "updatedenom": "C13"},
              "msg_owner": {"createpool": "C05", "withdraw": "C06", "send": "C08", "createacc": "C08", "split": "C07", "move": "C07", "movedenoms": "C07"},
              "invariant_owner": {"C05_Backed": "C05", "C05_Bounds": "C05", "NoNegBal": "C05", "C17_TraceOnlyForVesting": "C17", "Rejected": "C05", "Conserved": "C05",
                                  "C06_Lock": "C06", "C06_WithdrawnOnlyAfter": "C06", "C06_WithdrawExact": "C06", "C18_WithdrawEvents": "C18", "C07_Exact": "C07",
                                  "C08_Send": "C08", "C08_Create": "C08", "C09_NoOverwrite": "C09", "C17_Lineage": "C17", "C13_Denom": "C13"},
              "quick": dict(traces=150), "thorough": dict(traces=3000, timeout=3000)}

CHAINF = ["DecArith.tla", "MinterMath.tla", "Minter.tla", "Distributor.tla", "Chain.tla", "mc/MBT_Chain.tla"]
CHAIN_TRACE = {"name": "chain-trace", "kind": "trace", "files": CHAINF + ["trace/Trace_Chain.tla"], "module": "trace/Trace_Chain.tla",
               "cfg": "trace/Trace_Chain.cfg", "recorder": "trace-chain", "corrupt_event": "block", "corrupt_field": None, "corrupt_path": ["post", "supply", "uc4e"],
               "header": {"files": CHAINF, "module": "mc/MBT_Chain.tla", "cfg": "mc/MBT_Chain_header.cfg"},
               "default_owner": "C01", "event_owner": {"block": "C01", "update": "C13", "failedtx": "C13", "configure": "C13", "fee": "C03", "opaque": "C01", "export": "C12"},
               "diag_owner": [("ok", None), ("supply", "C01"), ("minter", "C02"), ("bal", "C04"), ("rem", "C03")],
               "invariant_owner": {"SupplyLedger": "C01", "BooksMatch": "C03", "NeverHalts": "C10", "CurrentPeriodExists": "C13",
                                   "SupplyOnlyInBlocks": "C01", "SupplyDeltaIsMintMinusBurn": "C01"},
               "quick": dict(traces=60), "thorough": dict(traces=1500, timeout=3000)}

SIG_TRACE = {"name": "signature-trace", "kind": "trace", "files": SIG + ["trace/Trace_Signature.tla"], "module": "trace/Trace_Signature.tla",
             "cfg": "trace/Trace_Signature.cfg", "recorder": "trace-signature", "corrupt_event": "publish", "corrupt_field": None, "corrupt_bool": "ok",
             "header": {"files": SIG, "module": "mc/MBT_Signature.tla", "cfg": "mc/MBT_Signature_header.cfg"},
             "default_owner": "C15", "event_owner": {"publish": "C15", "store": "C15", "verify": "C15", "createaccount": "C09", "configure": "C15"},
             "diag_owner": [("ok", None), ("links", "C15"), ("sigs", "C15"), ("accts", "C09")],
             "invariant_owner": {"VerifySound": "C15", "TrWriteOnce": "C15", "TrNoOverwrite": "C09"},
             "quick": dict(traces=100), "thorough": dict(traces=3000, timeout=3000)}

MINTER_NUM = {"name": "minter-numeric", "kind": "num", "no_tlc": True, "files": [], "module": None, "harness": "numminter", "checker": "check_minter",
              "quick": dict(steps=300, apalache_samples=40), "thorough": dict(steps=6000, apalache_samples=600, apalache_timeout=2400)}

DIST_HUGE = {"name": "dist-huge", "kind": "num", "no_tlc": True, "files": [], "module": None, "harness": "numdist", "checker": "check_none",
             "quick": dict(steps=300), "thorough": dict(steps=5000)}

VEST_HUGE = {"name": "vesting-huge", "kind": "num", "no_tlc": True, "files": [], "module": None, "harness": "numpools", "checker": "check_none",
             "quick": dict(steps=200), "thorough": dict(steps=4000)}

TRUST = ["TLC 1.8.0 and the TLA+ CommunityModules Json module", "the Go harness projection functions (harness/*)",
         "cosmos-sdk bank/auth keepers as the ground truth for balances and accounts"]

DIST_ASSUME = TRUST + ["fault injection wraps the bank keeper passed to cfedistributor's keeper (same store); faults are per target account, one call per target and block"]

VEST_ASSUME = TRUST + ["messages are delivered as baseapp does (ValidateBasic, routed handler on a cache context, write-back on success) without ante handler / signatures",
                       "amounts <= 40 base units and vesting durations in {2,4} ticks keep the model's decimal arithmetic (P=100) identical to the 18-digit code"]

CHAIN_ASSUME = TRUST + ["full-app BeginBlocker / EndBlocker are run on the deliver-state context (no Tendermint); messages are delivered as baseapp does without ante handler",
                        "export / import goes through the module manager's ExportGenesis (build-tag hook VerifModuleManager), ModuleBasics.ValidateGenesis and InitChain of a fresh application"]

PROPS = {
    "C01": {"level": "model_checking", "stages": [CHAIN_MBT, DIST_MULTI, DIST_CUR, VEST_POOLS, MINTER_SCHED, CHAIN_TRACE], "assumptions": CHAIN_ASSUME},
    "C10": {"level": "model_checking", "stages": [CHAIN_MBT, MINTER_UPD, DIST_CUR, DIST_UPD, MINTER_NUM, DIST_HUGE, CHAIN_TRACE], "assumptions": CHAIN_ASSUME},
    "C11": {"level": "model_checking", "stages": [CHAIN_REPL], "assumptions": CHAIN_ASSUME + ["Tendermint and IAVL are trusted; replicas are application instances fed the same ABCI calls"]},
    "C12": {"level": "model_checking", "stages": [CHAIN_MBT, MINTER_SCHED, DIST_CUR, VEST_ACCTS, VEST_POOLS, SIG_MBT, CHAIN_TRACE], "assumptions": CHAIN_ASSUME},
    "C13": {"level": "model_checking", "stages": [MINTER_UPD, DIST_UPD, VEST_ACCTS, CHAIN_MBT, CHAIN_TRACE, VEST_TRACE], "assumptions": CHAIN_ASSUME},
    "C16": {"level": "model_checking", "stages": [UPG_MBT],
            "assumptions": TRUST + ["the upgrade is executed as its parts (the three Migrator.Migrate2to3, v120.UpdateVestingAccountTraces, ModifyVestingPoolsState, ModifyVestingAccountsState) on a store filled with legacy-format records; x/upgrade plan handling and the ICA module initialisation are not driven"]},
    "C20": {"level": "model_checking", "stages": [HOST_MBT, VEST_ACCTS, SIG_MBT, DIST_UPD, MINTER_UPD],
            "assumptions": TRUST + ["field value classes are concretised by the harness (one representative per class); handlers are called through the modules' message servers, queries through the keepers' gRPC methods",
                                    "a panic of a handler on a message that ValidateBasic rejects is counted (handler-only) but not reported: a signer cannot reach it"]},
    "C18": {"level": "model_checking", "stages": [MINTER_SCHED, DIST_CUR, VEST_POOLS, VEST_TRACE, VEST_HUGE], "assumptions": TRUST},
    "C19": {"level": "model_checking", "stages": [MINTER_MC, MINTER_SCHED, MINTER_UPD, MINTER_NUM], "assumptions": TRUST + ["inflation is compared with the model value within 2/P (the model truncates the same rational at 1/P twice)"]},
    "C05": {"level": "model_checking", "stages": [VEST_MC, VEST_POOLS, VEST_TRACE, VEST_HUGE], "assumptions": VEST_ASSUME},
    "C06": {"level": "model_checking", "stages": [VEST_MC, VEST_POOLS, VEST_TWO, VEST_TRACE, VEST_HUGE], "assumptions": VEST_ASSUME},
    "C08": {"level": "model_checking", "stages": [VEST_MC, VEST_POOLS, VEST_ACCTS, SPLIT_NUM, VEST_TRACE], "assumptions": VEST_ASSUME},
    "C07": {"level": "model_checking", "stages": [VEST_MC, SPLIT_DRIFT, SPLIT_NUM, VEST_ACCTS, VEST_TWO, VEST_TRACE],
            "assumptions": VEST_ASSUME + ["real-magnitude steps (amounts to 10^30) are single splits on fresh accounts; Apalache 0.58 evaluates spec/VestingMath.tla at P = 10^18"]},
    "C09": {"level": "model_checking", "stages": [VEST_MC, VEST_ACCTS, VEST_POOLS, SIG_MBT, VEST_TRACE, SIG_TRACE], "assumptions": VEST_ASSUME},
    "C15": {"level": "model_checking", "stages": [SIG_MBT, SIG_TRACE],
            "assumptions": TRUST + ["cryptography is abstract in the model; the harness concretises keys with generated ECDSA P-256 / RSA-2048 self-signed certificates, so soundness is relative to Go's crypto/x509",
                                    "the cfesignature Msg service is not registered with the application's router; the harness calls keeper.NewMsgServerImpl directly"]},
    "C17": {"level": "model_checking", "stages": [VEST_MC, VEST_ACCTS, VEST_POOLS, VEST_TWO, VEST_TRACE], "assumptions": VEST_ASSUME},
    "C03": {"level": "model_checking", "stages": [DIST_MC, DIST_CUR, DIST_MULTI, DIST_SINGLE, DIST_TRACE, DIST_HUGE], "assumptions": DIST_ASSUME},
    "C04": {"level": "model_checking", "stages": [DIST_MC, DIST_CUR, DIST_MULTI, DIST_SINGLE, DIST_TRACE], "assumptions": DIST_ASSUME},
    "C14": {"level": "model_checking", "stages": [DIST_MC_FAULTS, DIST_CUR], "assumptions": DIST_ASSUME},
    "C02": {
        "level": "model_checking",
        "stages": [MINTER_MC, MINTER_SCHED, MINTER_TRACE, MINTER_NUM],
        "assumptions": TRUST + ["block times are multiples of the model tick (year/8); real-magnitude arithmetic is covered by the numeric stage only"],
    },
}
