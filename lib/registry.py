"""Per-property registry: which TLC configurations and harness modes decide each property."""

MINTER = ["DecArith.tla", "Minter.tla", "mc/MC_Minter.tla", "mc/MBT_Minter.tla"]


def mc(name, files, module, quick, thorough=None, **kw):
    s = {"name": name, "kind": "mc", "files": files, "module": module, "quick": dict(cfg=quick, **kw)}
    if thorough:
        s["thorough"] = dict(cfg=thorough, **kw)
        s["thorough"]["timeout"] = 3000
        s["thorough"]["workers"] = 16
        s["thorough"]["heap"] = "10g"
    return s


def mbt(name, files, module, harness, quick, thorough=None, qopts=None, topts=None):
    s = {"name": name, "kind": "mbt", "files": files, "module": module, "harness": harness,
         "quick": dict(cfg=quick, walks=200, depth=8, **(qopts or {}))}
    if thorough:
        s["thorough"] = dict(cfg=thorough, walks=4000, depth=12, timeout=3000, hworkers=16, heap="10g", **(topts or {}))
    return s


MINTER_MC = mc("minter-mc", MINTER, "MC_Minter.tla", "mc/MC_Minter_quick.cfg", "mc/MC_Minter_thorough.cfg")
MINTER_SCHED = mbt("minter-sched", MINTER, "MBT_Minter.tla", "minter", "mc/MBT_Minter_sched_quick.cfg", "mc/MBT_Minter_sched_thorough.cfg")
MINTER_UPD = mbt("minter-upd", MINTER, "MBT_Minter.tla", "minter", "mc/MBT_Minter_upd_quick.cfg", "mc/MBT_Minter_upd_thorough.cfg")

TRUST = ["TLC 1.8.0 and the TLA+ CommunityModules Json module", "the Go harness projection functions (harness/*)",
         "cosmos-sdk bank/auth keepers as the ground truth for balances and accounts"]

PROPS = {
    "C02": {
        "level": "model_checking",
        "stages": [MINTER_MC, MINTER_SCHED],
        "assumptions": TRUST + ["block times are multiples of the model tick (year/8); real-magnitude arithmetic is covered by the numeric stage only"],
    },
}
