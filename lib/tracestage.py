"""Trace validation stage (implementation -> specification): record executions of the real code with a seeded
driver, let TLC check them against the trace specification (which re-uses the actions and invariants of the
module's specification), and demonstrate the binding with a negative control (one corrupted field must be rejected)."""
import json, os, re, shutil, subprocess
import tlc


def _run_tlc(sdir, module, cfg, timeout):
    return tlc.run_tlc(sdir, module, cfg, workers=1, heap="4g", timeout=timeout, gc_threads=2)


def run(vh, st, tcfg, sdir, seed, goenv):
    os.makedirs(sdir, exist_ok=True)
    info = {"stage": st["name"], "kind": "trace", "cfg": os.path.basename(st["cfg"])}
    trace = os.path.join(sdir, "trace.ndjson")
    stats = os.path.join(sdir, "stats.json")
    cmd = [vh, st["recorder"], "-edges", trace, "-walks", str(tcfg.get("traces", 200)), "-seed", str(seed), "-out", stats]
    if st.get("header"):
        # the recorder takes its configuration (set-ups, vesting types, addresses) from the specification: TLC prints the header lines
        h = st["header"]
        hdir = os.path.join(sdir, "header")
        tlc.stage(hdir, h["files"] + [h["cfg"]])
        hr = tlc.run_tlc(hdir, os.path.basename(h["module"]), os.path.basename(h["cfg"]), workers=1, heap="2g", timeout=300, gc_threads=2)
        if not hr.ok:
            info["broken"] = "TLC failed printing the configuration header: %s" % ((hr.error or hr.violation or "")[:1500])
            return info, [], 0
        cmd += ["-hdr", hr.out_path]
    p = subprocess.run(cmd, env=goenv, stdout=subprocess.PIPE, stderr=subprocess.STDOUT, text=True, timeout=tcfg.get("htimeout", 1800))
    if p.returncode != 0 or not os.path.exists(trace):
        info["broken"] = "trace recorder failed (rc=%s): %s" % (p.returncode, p.stdout[-2000:])
        return info, [], 0
    rec = json.load(open(stats))
    info["recorder"] = {k: rec.get(k) for k in rec if k != "sample"}
    info["samples"] = rec.get("sample") or []
    # what the recorder itself observed on the real code (panics, export / import failures)
    rec_findings = [{"prop": x.get("prop"), "kind": x.get("kind"), "sig": x.get("sig"), "msg": x.get("msg"), "path": x.get("path") or [], "expected": None, "observed": None}
                    for x in (rec.get("findings") or [])]
    lines = open(trace).read().splitlines()
    if len(lines) < 10:
        info["broken"] = "trace recorder produced %d events" % len(lines)
        return info, [], 0
    tlc.stage(sdir, st["files"] + [st["cfg"]])
    module, cfg = os.path.basename(st["module"]), os.path.basename(st["cfg"])
    r = _run_tlc(sdir, module, cfg, tcfg.get("timeout", 900))
    info["tlc"] = r.as_dict()
    for ln in open(r.out_path, errors="replace"):
        if "skipped" in ln[:16]:
            try:
                d = json.loads(ln)
                d = json.loads(d) if isinstance(d, str) else d
                # events of executions that the model could not follow digit by digit (decimal-inexact at the model's P): consumed without comparison
                info["skipped_events"] = d["skipped"]
            except Exception:
                pass
    info["tlc_states"] = r.distinct
    findings = list(rec_findings)
    if r.violation:
        # an invariant of the specification is false in a state of a real execution
        m = re.search(r"Invariant (\w+) is violated", r.violation) or re.search(r"Action property (\w+) is violated", r.violation)
        inv = m.group(1) if m else "unknown"
        if not m:
            m2 = re.search(r"Action property line (\d+), col", r.violation)
            inv = st.get("property_lines", {}).get(m2.group(1), "action-property-line-" + m2.group(1)) if m2 else "unknown"
        line = max(1, r.depth - 1)
        ev = json.loads(lines[min(line, len(lines)) - 1]) if lines else {}
        findings.append({"prop": st["invariant_owner"].get(inv, st["default_owner"]), "kind": "predicate", "sig": "trace.%s.invariant.%s" % (st["name"], inv),
                         "msg": "invariant %s of the specification is violated by a recorded real execution at trace line %d" % (inv, line),
                         "path": [{"trace_line": line, "event": ev}], "expected": None, "observed": None})
    elif r.postcondition_failed:
        # the longest prefix TLC could explain ends before the trace does: the next event is not a behaviour of the spec
        line = r.depth  # states = consumed lines + 1
        ev = json.loads(lines[line - 1]) if 0 < line <= len(lines) else {}
        prev = [json.loads(x) for x in lines[max(0, line - 4):line - 1]]
        owner = st["event_owner"].get(ev.get("ev"), st["default_owner"])
        if ev.get("ev") == "msg" and st.get("msg_owner"):
            owner = st["msg_owner"].get(ev.get("m"), owner)
        diag = None
        if st.get("diag_owner"):
            # second run: the rejected line is consumed without comparison and the specification prints which logged components it does not reproduce
            ddir = os.path.join(sdir, "diag")
            os.makedirs(ddir, exist_ok=True)
            for f in os.listdir(sdir):
                if f.endswith(".tla") or f.endswith(".cfg") or f == "trace.ndjson":
                    shutil.copy(os.path.join(sdir, f), os.path.join(ddir, f))
            c = open(os.path.join(ddir, cfg)).read().replace("DiagLine = 0", "DiagLine = %d" % line)
            open(os.path.join(ddir, cfg), "w").write(c)
            rd = _run_tlc(ddir, module, cfg, tcfg.get("timeout", 900))
            for ln in open(rd.out_path, errors="replace"):
                if "diag" in ln[:12]:
                    try:
                        d = json.loads(ln)
                        diag = (json.loads(d) if isinstance(d, str) else d)["diag"]
                    except Exception:
                        continue
                    break
            shutil.rmtree(ddir, ignore_errors=True)
            if diag:
                wrong = [k for k in diag if not diag[k]]
                for k, o in st["diag_owner"]:
                    if k in wrong:
                        owner = o or owner
                        break
        findings.append({"prop": owner, "kind": "mismatch", "sig": "trace.%s.rejected.%s" % (st["name"], ev.get("m") or ev.get("ev")),
                         "msg": "recorded real execution is not a behaviour of the specification: trace line %d cannot be explained%s" % (line, (" (the specification disagrees on: %s)" % ", ".join(sorted(k for k in diag if not diag[k]))) if diag else ""),
                         "path": prev + [ev], "expected": None, "observed": ev})
    elif not r.ok:
        info["broken"] = "TLC failed on the trace specification: %s" % ((r.error or "")[:2000])
        return info, [], 0
    else:
        # negative control: corrupt one logged number in the middle of the log; the trace must now be rejected
        idx = [i for i, x in enumerate(lines) if ('"ev":"%s"' % st["corrupt_event"]) in x]
        k = idx[len(idx) // 2]
        e = json.loads(lines[k])
        if st.get("corrupt_bool"):
            e[st["corrupt_bool"]] = not e[st["corrupt_bool"]]
        elif st.get("corrupt_path"):
            x = e
            for kk in st["corrupt_path"][:-1]:
                x = x[kk]
            x[st["corrupt_path"][-1]] += 1
        elif st.get("corrupt_field"):
            e[st["corrupt_field"]] = e[st["corrupt_field"]] + 1
        else:
            # bump the first number found inside the event (nested coin maps)
            def bump(x):
                if isinstance(x, dict):
                    for kk in sorted(x):
                        if isinstance(x[kk], int) and not isinstance(x[kk], bool):
                            x[kk] += 1
                            return True
                        if bump(x[kk]):
                            return True
                return False
            bump(e)
        bad = list(lines)
        bad[k] = json.dumps(e, separators=(",", ":"))
        ndir = os.path.join(sdir, "negative")
        os.makedirs(ndir, exist_ok=True)
        for f in os.listdir(sdir):
            if f.endswith(".tla") or f.endswith(".cfg"):
                shutil.copy(os.path.join(sdir, f), os.path.join(ndir, f))
        open(os.path.join(ndir, "trace.ndjson"), "w").write("\n".join(bad) + "\n")
        rn = _run_tlc(ndir, module, cfg, tcfg.get("timeout", 900))
        info["negative_control"] = {"corrupted_line": k + 1, "rejected": bool(rn.postcondition_failed or rn.violation), "matched_prefix": rn.depth - 1}
        if not (rn.postcondition_failed or rn.violation):
            info["broken"] = "negative control: a corrupted trace (line %d) was accepted - the trace specification does not bind" % (k + 1)
            return info, [], 0
        shutil.rmtree(ndir, ignore_errors=True)
    return info, findings, len(lines)
