"""Run TLC (and Apalache) in a private scratch directory and parse its statistics."""
import os, re, shutil, subprocess, time

VERIF = os.path.dirname(os.path.dirname(os.path.abspath(__file__)))
SPEC = os.path.join(VERIF, "spec")
JAR = "/opt/veriftools/tla/tla2tools.jar:/opt/veriftools/tla/CommunityModules-deps.jar"


class TLCResult:
    def __init__(self):
        self.rc = None
        self.generated = 0
        self.distinct = 0
        self.depth = 0
        self.ok = False
        self.violation = None      # text of an invariant / property violation
        self.error = None          # other error (parse, evaluation, timeout)
        self.out_path = None
        self.wall_s = 0.0
        self.coverage_zero = []
        self.postcondition_failed = False
        self.cmd = ""

    def as_dict(self):
        return {k: getattr(self, k) for k in ("rc", "generated", "distinct", "depth", "ok", "violation", "error", "wall_s", "cmd")}


def stage(workdir, files):
    """Copy spec files (relative to /verif/spec) flat into workdir."""
    os.makedirs(workdir, exist_ok=True)
    for f in files:
        shutil.copy(os.path.join(SPEC, f), os.path.join(workdir, os.path.basename(f)))


def run_tlc(workdir, module, cfg, workers=4, heap="4g", timeout=600, extra=None, simulate=None, out_name=None, gc_threads=4, keep_meta=False):
    """Runs TLC on <module>.tla with <cfg> inside workdir.  stdout goes to a file
    (edge lines can be hundreds of MB); statistics are parsed from it."""
    r = TLCResult()
    out_name = out_name or (os.path.splitext(cfg)[0] + ".out")
    r.out_path = os.path.join(workdir, out_name)
    meta = os.path.join(workdir, "md_" + os.path.splitext(cfg)[0])
    tmp = os.path.join(workdir, "jtmp")
    os.makedirs(tmp, exist_ok=True)
    cmd = ["java", "-Xmx" + heap, "-Xss64m", "-XX:+UseParallelGC", "-XX:ParallelGCThreads=%d" % gc_threads,
           "-Djava.io.tmpdir=" + tmp, "-cp", JAR, "tlc2.TLC", "-workers", str(workers), "-metadir", meta,
           "-config", cfg]
    if simulate:
        cmd += ["-simulate", simulate]
    if extra:
        cmd += list(extra)
    cmd += [module]
    r.cmd = " ".join(cmd)
    t0 = time.time()
    env = dict(os.environ)
    env.pop("JAVA_TOOL_OPTIONS", None)
    with open(r.out_path, "w") as out:
        try:
            p = subprocess.run(cmd, cwd=workdir, stdout=out, stderr=subprocess.STDOUT, timeout=timeout, env=env)
            r.rc = p.returncode
        except subprocess.TimeoutExpired:
            r.error = "timeout after %ss" % timeout
            subprocess.run(["pkill", "-f", "metadir " + meta], check=False)
    r.wall_s = round(time.time() - t0, 2)
    _parse(r)
    shutil.rmtree(meta, ignore_errors=True)
    shutil.rmtree(tmp, ignore_errors=True)
    return r


_STATS = re.compile(r"^(\d[\d,]*) states generated, (\d[\d,]*) distinct states found")


def _parse(r):
    viol = []
    grab = 0
    with open(r.out_path, errors="replace") as f:
        for line in f:
            if line.startswith('"'):
                continue
            m = _STATS.match(line)
            if m:
                r.generated = int(m.group(1).replace(",", ""))
                r.distinct = int(m.group(2).replace(",", ""))
            if line.startswith("The depth of the complete state graph search is"):
                r.depth = int(re.findall(r"\d+", line)[0])
            if "Model checking completed. No error has been found." in line:
                r.ok = True
            if "Postcondition" in line and "is false" in line:
                r.postcondition_failed = True
                continue
            if line.startswith("Error:") or "is violated" in line:
                grab = 40
            if grab > 0:
                viol.append(line.rstrip())
                grab -= 1
    if viol:
        text = "\n".join(viol)
        if "is violated" in text or "Invariant" in text or "Action property" in text or "Temporal properties were violated" in text:
            r.violation = text
        else:
            r.error = r.error or text
    if r.postcondition_failed:
        r.ok = False
        return
    if not r.ok and not r.violation and not r.error:
        r.error = "TLC ended without verdict (rc=%s)" % r.rc


def count_edges(path):
    n = 0
    with open(path, errors="replace") as f:
        for line in f:
            if line.startswith('"{\\"s\\"'):
                n += 1
    return n


def action_coverage(out_path):
    """Per-action counts of a run with -coverage 1: {action: [distinct, generated]} (last report in the output)."""
    import re
    acts = {}
    pat = re.compile(r"^<(\w+) line \d+, col \d+ to line \d+, col \d+ of module (\w+)>: (\d+):(\d+)\s*$")
    for line in open(out_path, errors="replace"):
        m = pat.match(line)
        if m and m.group(1) != "Init":
            acts[m.group(1)] = [int(m.group(3)), int(m.group(4))]
    return acts
