"""Generate /verif/harness/go.mod from /repo/go.mod so that the harness builds
offline against /repo's current working tree (replace => /repo)."""
import os, re, shutil, tempfile

REPO = os.environ.get("VERIF_REPO", "/repo")
HARNESS = os.path.join(os.path.dirname(os.path.dirname(os.path.abspath(__file__))), "harness")
MOD = "github.com/chain4energy/c4e-chain"

def generate():
    src = open(os.path.join(REPO, "go.mod")).read()
    out = re.sub(r"^module\s+\S+", "module verif/harness", src, count=1, flags=re.M)
    out += "\nrequire %s v0.0.0\n" % MOD
    out += "require pgregory.net/rapid v1.3.0\n" if "pgregory.net/rapid" not in src else ""
    out += "replace %s => %s\n" % (MOD, REPO)
    _write_if_changed(os.path.join(HARNESS, "go.mod"), out)
    sums = open(os.path.join(REPO, "go.sum")).read()
    extra = os.path.join(HARNESS, "go.sum.extra")
    if os.path.exists(extra):
        sums += open(extra).read()
    _write_if_changed(os.path.join(HARNESS, "go.sum"), sums)

def _write_if_changed(path, content):
    try:
        if open(path).read() == content:
            return
    except FileNotFoundError:
        pass
    fd, tmp = tempfile.mkstemp(dir=os.path.dirname(path))
    with os.fdopen(fd, "w") as f:
        f.write(content)
    os.replace(tmp, path)

if __name__ == "__main__":
    generate()
    print("generated", os.path.join(HARNESS, "go.mod"))
