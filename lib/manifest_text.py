"""Human-written texts of MANIFEST.json (kept apart from the machinery)."""
HOOK_COMMITS = ["ce85ca1"]
NOTES = ("All checks are driven by bin/check; the TLA+ specification lives in spec/, the Go conformance harness in harness/ "
         "(its go.mod is generated from /repo/go.mod with replace => /repo, so every run rebuilds from /repo's working tree). "
         "Known findings are listed in known_findings.json.")
NA = {}
# sentences appended to a property's technique for the stages (lib/registry.py) that serve it beyond model checking + S->I replay
STAGE_TEXT = {
    "minter-trace": "trace validation (I->S): seeded random executions of the real minter keeper (up to four periods, arbitrary block times, interleaved updates) are checked by TLC against spec/trace/Trace_Minter.tla, which re-uses the actions and invariants of Minter.tla; negative control on every run",
    "dist-trace": "trace validation (I->S): seeded random executions of the real distributor keeper (up to four sub-distributors over nine accounts, two denominations) checked by TLC against spec/trace/Trace_Distributor.tla (actions and invariants of Distributor.tla); negative control on every run",
    "vesting-trace": "trace validation (I->S): long seeded random message histories (12-30 steps, 12 addresses, delegations, time steps) recorded from the real message router and checked by TLC against spec/trace/Trace_Vesting.tla, which re-uses the message operators, invariants and action properties of Vesting.tla and compares verdict, full post-state, withdraw response and typed withdrawal events of every step; negative control and per-component diagnosis of a rejected step",
    "chain-trace": "trace validation (I->S) of the whole application: 8-35 block histories (full-app EndBlocker / BeginBlocker, fees, custom-module messages, governance updates, failed multi-message transactions, export / import) on four-period schedules and three-level distribution chains, checked by TLC against spec/trace/Trace_Chain.tla (actions, invariants and supply action properties of Chain.tla, minter state, every balance, every leftover, supply and mint event compared on every step); negative control and diagnosis",
    "signature-trace": "trace validation (I->S): 20-40 step random histories of publish / store / create-account messages and verify queries on the real handlers (three addresses, four reference ids, near-collision keys, mostly valid records with single-field faults) checked by TLC against spec/trace/Trace_Signature.tla (actions of Signature.tla, VerifySound, write-once, no-overwrite); negative control and diagnosis",
    "minter-numeric": "numeric stage: real-magnitude schedules (amounts to 10^27, millisecond times) executed twice with different block cadences on the real keeper; sampled totals, remainder hand-overs and the reported inflation are checked by Apalache as relations over spec/MinterMath.tla at P = 10^18",
    "vesting-numeric": "numeric stage: TLC enumerates spec/mc/MC_Split (all small splits) and prints the cases in which rounding matters; the harness lifts them to real magnitude (and adds seeded amounts to 10^30 and pool sends with 18-digit free fractions), executes them on the real handlers, and Apalache checks every recorded step against spec/VestingMath.tla at P = 10^18",
    "split-drift-mc": "TLC checks the schedule drift bound of the split arithmetic (VestingMath.tla) exhaustively at small scale",
    "vesting-huge": "real-magnitude pool life-cycles (amounts around 2^63 and up to 10^30: create, early withdraw, withdraw or send with its implicit withdraw after one lock end, repeated withdraw) on the real handlers with backing, bounds, pay-out and registered-invariant predicates evaluated on the real state",
    "dist-huge": "real-magnitude runs of the distributor (amounts to 10^30) with the books and share predicates evaluated on the real state",
    "chain-replicas": "TLC-generated histories (including failed multi-message transactions) executed through real ABCI with Commit by two OS processes, in-process repetitions, and a replica that is restarted (new application object on the committed store) after every commit",
}
DIST_NOTE = ("Bounds: curated hostile configurations (quick) and every single sub-distributor over <=2 ordered sources, any primary, <=2 shares, burn (thorough); "
             "deposits of 3/10 units on one account per block, <=3 blocks, shares in quarters (decimal-exact at P=64, so model and 18-digit code agree exactly). "
             "TLC, the Json module and the harness projection (States/Params queries, bank balances) are trusted.")
VEST_NOTE = ("Bounds: 6 addresses (two funded owners, two fresh recipients, one genesis vesting account, one blocked module account), genesis and non-genesis pools, "
             "3 vesting types (free 0, 1/20, 1/2), ~80 message attempts per state with amounts chosen relative to the state (zero, one, half, all, all-1, over, negative), "
             "<= 2 (quick) / 3 (thorough) messages interleaved with time steps 0..4/6; amounts <= 40 so the P=100 model arithmetic equals the 18-digit code. "
             "Messages are delivered like baseapp.runTx without ante handler. TLC, the Json module and the harness projection are trusted.")
CHAIN_NOTE = ("Chain.tla composes Minter.tla and Distributor.tla at block level (INSTANCE); cfevesting / cfesignature messages appear as opaque supply-neutral steps whose own semantics is Vesting.tla / Signature.tla. "
              "Bounds: 3 minter x 3 distributor configurations, <= 2 (quick) / 3 (thorough) blocks, fees to the fee collector, one governance update, export at every point after the first block. "
              "No Tendermint: ABCI calls are made directly; TLC, the Json module and the harness projection are trusted.")
TEXT = {
    "C20": {
        "technique": "TLA+ spec Hostile.tla: every message and query type of the four modules as a sequence of typed fields with abstract hostile value classes (nil, empty, negative, zero, huge, malformed, unresolved Any, references to existing / missing objects); TLC enumerates the full product per type against an empty and a populated state, the only allowed outcomes are ok / rejected; the harness concretises each combination and runs ValidateBasic, the handler and the gRPC query under recover(); the stateful walks of the other specifications add the panics reachable only through histories",
        "level": "Exhaustive enumeration of the boundary-class product by the model checker (about 12 000 combinations x 2 states) with each one executed on the real code; a panic is reported with the message type and field classes that cause it, and a handler panic after ValidateBasic passed is flagged separately.",
        "note": "One representative value per class; classes are listed in spec/mc/MBT_Hostile.tla. Panics behind a rejecting ValidateBasic are counted as handler-only and not reported. TLC, the Json module and the harness are trusted.",
    },
    "C16": {
        "technique": "TLA+ spec Upgrade.tla: the v1.2.0 upgrade as a function on legacy-format states (LockedPreserved, HistoryPreserved, SolventAfter, AllOrNothing, AccountsKeepAmounts, ParamsPreserved checked by TLC over the enumerated pre-states); every pre-state is written to a real store in the legacy format (v2 proto types, x/params subspaces) and the real migrators and v120 functions are run on it, the complete post-state compared with the model",
        "level": "Model checking over the pre-upgrade state space (presence / absence of the hard-coded owner, pool and vesting type, locked in {sum-1, sum, sum+1, 2 sum}, sent / withdrawn histories, pre-existing pools with the new names, other owners using the renamed type, lineage traces, shifted accounts of every kind (including accounts with delegation counters and a sequence number), legacy minter and distributor parameters) with conformance of the real upgrade code on every enumerated pre-state.",
        "note": "Amounts in whole C4E x 10^6; calendar shifts (AddDate) are constants computed for the harness epoch 2030-01-01. The x/upgrade plan machinery, module version map and ICA initialisation are not driven (stated as not covered). TLC, the Json module and the harness projection are trusted.",
    },
    "C01": {
        "technique": "TLA+ spec Chain.tla (supply ledger ghosts minted/burned; SupplyLedger, SupplyOnlyInBlocks, SupplyDeltaIsMintMinusBurn checked by TLC); every transition replayed on the full application (real app.BeginBlocker/EndBlocker, routed messages) with bank supply, the bank total-supply invariant and per-block supply delta compared; vesting and minter stages add per-message supply neutrality",
        "level": "Model checking of the composed block life-cycle plus conformance of the whole application on every enumerated transition: per-block supply delta = scheduled mint - configured burn, supply unchanged by every message (valid or rejected), supply = sum of balances (bank invariant evaluated on the real state after every step).",
        "note": CHAIN_NOTE,
    },
    "C10": {
        "technique": "TLA+ specs Chain.tla / Minter.tla / Distributor.tla with a halted flag (NeverHalts, CurrentPeriodExists invariants); every begin-block / end-block of the enumerated histories (parameter updates at any time relative to the schedule, persistent transfer faults, states restored from exported genesis) executed on the real application under recover()",
        "level": "Model checking over configurations x update sequences x block times x fault patterns x export points, with every enumerated begin/end-block executed on the real code; a panic anywhere is reported with the history that reaches it.",
        "note": CHAIN_NOTE + " Magnitudes above 2^31 (e.g. the int64 telemetry boundary) are outside the TLC domain; they are covered by the numeric stage when present.",
    },
    "C11": {
        "technique": "TLC-generated histories of Chain.tla (seeded random paths of the enumerated transition graph) executed through real ABCI with Commit by two separate OS processes and repeatedly in-process; app hash, message outcomes and begin/end-block events compared at every height",
        "level": "Exploration seeded by the model: the same histories are executed by independent application instances (separate processes: independent package state, map iteration order re-randomised per run) and must agree on the state commitment and results at every height.",
        "note": CHAIN_NOTE + " Tendermint and IAVL are trusted; this is exploration, not a proof of determinism.",
    },
    "C12": {
        "technique": "ExportImport is an action enabled in every idle state of Chain.tla / Minter.tla / Distributor.tla / Vesting.tla / Signature.tla; at every such point the harness exports through the real module manager, validates with ModuleBasics.ValidateGenesis, initialises a fresh application (InitChain), re-exports (custom modules, bank, auth byte-compared) and continues the remaining transitions on the restored application",
        "level": "Crash-point enumeration by the model checker (every explored history prefix) with the real export / validate / import / re-export cycle executed at each point and all later transitions replayed on the restored state, so lost data shows as a divergence from the model later in the walk.",
        "note": CHAIN_NOTE + " Known finding F7: cfesignature exports neither links nor signatures (needs a proto change).",
    },
    "C13": {
        "technique": "TLA+ specs with the seven update messages as actions (authority x payload), transcribed validators (ValidCfg, ValidConfig) and invariants StoredParamsValid / CurrentPeriodExists / C13_Denom / OnlyGov / RejectedUnchanged; every update attempt (valid, one per validation rule broken, wrong signers) replayed through ValidateBasic + handler on the real application comparing accept/reject and the stored parameters",
        "level": "Model checking over update sequences and conformance of the real handlers on every enumerated attempt; the transcribed validators are thereby bound to the real Validate() on every payload tried.",
        "note": "Bounds: 20 minter payloads x 2 message kinds x 3 authorities at any schedule time; 43 distributor attempts (4 message kinds) on 13 curated configurations; vesting denom updates with and without pools. In the module-level stages messages are delivered with the governance authority string; in the whole-application stages (chain MBT, chain trace) every other update and failed transaction goes through a real x/gov proposal (submit, deposit, vote by the bonded delegator, execution by gov's EndBlocker). TLC, the Json module and the harness projection are trusted.",
    },
    "C18": {
        "technique": "events are outputs of the model actions (act.minted, act.events per sub-distributor, per-pool withdraw events; MintEventIsDelta, EventsAddUp, C18_WithdrawEvents checked by TLC); the typed events of every real BeginBlocker / message are parsed and compared with the model and with the real balance deltas",
        "level": "Model checking of the event algebra plus conformance of the real typed events on every enumerated block and message (mint amount = supply delta, distribution and burn events per sub-distributor, one withdrawal event per paying pool).",
        "note": "Reading chosen for the distributor: the part of an inflow whose destination is MAIN has no event (it stays where it is); events + that part = inflow. Bounds as in C02 / C03 / C05. TLC, the Json module and the harness projection are trusted.",
    },
    "C19": {
        "technique": "TLA+ spec Minter.tla: Inflation operator per minter type, InflationMatchesEmission (action property tying a block's mint to inflation*supply*dt/year) and InflationZeroCases checked by TLC; the real Inflation query compared with the model value (within 2/P) in every state of every enumerated transition, including states after parameter updates",
        "level": "Model checking of the inflation/emission identity over all configurations and block partitions, plus conformance of the real query in every enumerated state.",
        "note": "Bounds as in C02; year = 8 ticks so the real year constant is used by the code. Comparison tolerance 2/P (P=4096) because the model truncates the same rational at 1/P; exact 18-digit agreement is the numeric stage's job. TLC, the Json module and the harness projection are trusted.",
    },
    "C15": {
        "technique": "TLA+ spec Signature.tla with abstract cryptography (WriteOnce action property, VerifySound invariant checked by TLC); every publish / store / verify transition replayed on the real handlers with generated ECDSA P-256 and RSA-2048 certificates, every single-field mutation of a valid record, publish/store sequences on equal keys, and publishes under keys that are case / whitespace variants of a used key (VarKeys, concretised adversarially)",
        "level": "Model checking of all message sequences (<= 3/4 messages) over 2 addresses x 2 reference ids x 2 links x 22 signature-record variants, with conformance of the real verification verdict, the echoed fields (compared with the raw stored record) and the raw link / signature store after every transition; the write-once predicate is evaluated directly on the real store around every message.",
        "note": "Cryptography is abstract in the model (soundness relative to Go's crypto/x509). The application does not register the cfesignature Msg service with the router, so the handlers are driven through keeper.NewMsgServerImpl. TLC, the Json module and the harness projection are trusted.",
    },
    "C05": {
        "technique": "TLA+ spec Vesting.tla: TLC checks C05_Backed / C05_Bounds / Rejected on every reachable state and transition; every model transition replayed on the real message router with module balance, every pool counter and the module's registered invariants compared after each message",
        "level": "Model checking of all message interleavings within bounds plus conformance of the real handlers on every enumerated transition (accept/reject, pool counters, module balance, balances); rejected messages are checked to leave the complete real projection unchanged.",
        "note": VEST_NOTE,
    },
    "C06": {
        "technique": "TLA+ spec Vesting.tla: action properties C06_Lock / C06_WithdrawnOnlyAfter / C06_WithdrawExact checked by TLC; real withdraw response, owner balance delta and the VestingPools query's withdrawable field compared with the model at every time step before, at and after each lock end",
        "level": "Model checking over every block time relative to every lock end (integer ticks make this exhaustive) with conformance of the real withdraw / query on every transition.",
        "note": VEST_NOTE,
    },
    "C07": {
        "technique": "TLA+ spec Vesting.tla (SplitOV = the unlock algorithm incl. the -1 compensation): TLC checks C07_Exact / C07_Drift / C07_Liveness; every split, move and move-by-denominations transition replayed on the real handlers comparing locked, spendable, original vesting, start/end of both accounts, with delegated vesting through the real staking keeper and two denominations",
        "level": "Model checking of the split arithmetic and schedule preservation within bounds plus conformance of the real handlers on every enumerated transition, including chains of repeated splits and delegated vesting. Real-magnitude arithmetic (10^18 and above) is outside the TLC domain and covered by the numeric stage when present.",
        "note": VEST_NOTE,
    },
    "C08": {
        "technique": "TLA+ spec Vesting.tla: C08_Send / C08_Create action properties checked by TLC; every send-to-vesting-account and create-vesting-account transition replayed on the real handlers comparing recipient balance, original vesting, start/end, the pool's sent counter and accept/reject at the exact-remainder boundary",
        "level": "Model checking over vesting types x pool states x amounts x restart flag x block time relative to lock end x recipient state, with conformance of the real handlers on every enumerated transition.",
        "note": VEST_NOTE,
    },
    "C09": {
        "technique": "TLA+ spec Vesting.tla: C09_NoOverwrite action property checked by TLC; around every real message the harness snapshots every pre-existing auth account (type, number, sequence, public key, vesting fields) and requires it unchanged except the signer's own original vesting on an accepted split/move",
        "level": "Model checking over target address states (absent, base, vesting, module) x every account-creating message, with the no-overwrite predicate evaluated directly on the real account store around every enumerated message.",
        "note": VEST_NOTE + " The signature module's CreateAccount is covered by the signature stage.",
    },
    "C17": {
        "technique": "TLA+ spec Vesting.tla: lineage traces and both summary queries are part of the model state; C17_Lineage checked by TLC; real traces, VestingsSummary and GenesisVestingsSummary compared with the model after every transition including delegation through the real staking keeper",
        "level": "Model checking of lineage propagation through sends, splits and moves (chains within the message bound) with conformance of the real trace store and summary queries at every block time explored.",
        "note": VEST_NOTE,
    },
    "C03": {
        "technique": "TLA+ spec Distributor.tla: TLC checks BooksMatch/NonNegative/Conservation on every reachable state of the reference flow; every model transition (deposit, BeginBlocker, export/import) replayed on the real cfedistributor keeper with the C03 predicate and the module's own invariants evaluated on the real state",
        "level": "Model checking of the documented flow over configuration families x deposit patterns x blocks, plus conformance of the real BeginBlocker to every enumerated transition (balances of every account, every leftover, parameters). The C03 identity is additionally evaluated directly on the real States query after every block, so the verdict never rests on the model alone.",
        "note": DIST_NOTE,
    },
    "C04": {
        "technique": "TLA+ spec Distributor.tla with an entitlement ghost computed from the documented formula only (ShareExact invariant); per-destination balances and leftovers of the real keeper compared with the model on every transition, including shares to MAIN, internal accounts named like module accounts, multi-source and chained sub-distributors",
        "level": "The reference model is the independent model of the documented flow the property asks for; TLC proves ShareExact/PaidUp on it within bounds and the harness shows the real keeper produces the same per-destination receipts and leftovers on every enumerated transition.",
        "note": DIST_NOTE,
    },
    "C14": {
        "technique": "TLA+ spec Distributor.tla with a per-call fault choice in Block(F); TLC checks the C03 identity and ShareExact under every single-fault pattern over 3 blocks; the harness replays every faulty block on the real keeper through a bank-keeper wrapper that fails exactly the chosen calls",
        "level": "Fault enumeration by the model checker (every single failing sweep/payout/burn per block, followed by fault-free blocks) with conformance of the real keeper's state after each faulty block; PaidUp after a fault-free block shows the missed transfers are made up.",
        "note": DIST_NOTE + " Faults are injected at the bank-keeper interface of the distributor keeper; natural failures (blocked recipients, locked coins) are not separately enumerated.",
    },
    "C02": {
        "technique": "TLA+ spec Minter.tla: TLC exhaustive over all configurations x block partitions with an independent cumulative-schedule oracle; every model transition replayed on the real cfeminter BeginBlocker (model-based testing)",
        "level": "TLC checks ScheduleConformance / LinearExact / CarryOK / Monotone on the reference model for every configuration family member and every block partition of the bounded time line; the Go harness then executes every transition of the (decimal-exact) model graph on the real keeper and compares sequence id, amount minted, remainders, history, supply delta and events, so a code change that alters emission at any boundary explored is caught. Model checking + conformance is the right level because the property quantifies over block partitions, which a state-space enumeration covers completely within the bounds.",
        "note": "Bounds: <=3 periods, amounts <= 16, time line 0..10 ticks (tick = year/8), multipliers in {0,1/2,1}; arithmetic at real magnitude is trusted to scale (DecArith is scale-free) unless the numeric stage is run. TLC, the Json module and the harness projection are trusted.",
    },
}
