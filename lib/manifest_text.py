"""Human-written texts of MANIFEST.json (kept apart from the machinery)."""
HOOK_COMMITS = []
NOTES = ("All checks are driven by bin/check; the TLA+ specification lives in spec/, the Go conformance harness in harness/ "
         "(its go.mod is generated from /repo/go.mod with replace => /repo, so every run rebuilds from /repo's working tree). "
         "Known findings are listed in known_findings.json.")
NA = {}
TEXT = {
    "C02": {
        "technique": "TLA+ spec Minter.tla: TLC exhaustive over all configurations x block partitions with an independent cumulative-schedule oracle; every model transition replayed on the real cfeminter BeginBlocker (model-based testing)",
        "level": "TLC checks ScheduleConformance / LinearExact / CarryOK / Monotone on the reference model for every configuration family member and every block partition of the bounded time line; the Go harness then executes every transition of the (decimal-exact) model graph on the real keeper and compares sequence id, amount minted, remainders, history, supply delta and events, so a code change that alters emission at any boundary explored is caught. Model checking + conformance is the right level because the property quantifies over block partitions, which a state-space enumeration covers completely within the bounds.",
        "note": "Bounds: <=3 periods, amounts <= 16, time line 0..10 ticks (tick = year/8), multipliers in {0,1/2,1}; arithmetic at real magnitude is trusted to scale (DecArith is scale-free) unless the numeric stage is run. TLC, the Json module and the harness projection are trusted.",
    },
}
