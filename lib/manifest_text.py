"""Human-written texts of MANIFEST.json (kept apart from the machinery)."""
HOOK_COMMITS = []
NOTES = ("All checks are driven by bin/check; the TLA+ specification lives in spec/, the Go conformance harness in harness/ "
         "(its go.mod is generated from /repo/go.mod with replace => /repo, so every run rebuilds from /repo's working tree). "
         "Known findings are listed in known_findings.json.")
NA = {}
DIST_NOTE = ("Bounds: curated hostile configurations (quick) and every single sub-distributor over <=2 ordered sources, any primary, <=2 shares, burn (thorough); "
             "deposits of 3/10 units on one account per block, <=3 blocks, shares in quarters (decimal-exact at P=64, so model and 18-digit code agree exactly). "
             "TLC, the Json module and the harness projection (States/Params queries, bank balances) are trusted.")
TEXT = {
    "C03": {
        "technique": "TLA+ spec Distributor.tla: TLC checks BooksMatch/NonNegative/Conservation on every reachable state of the reference flow; every model transition (deposit, BeginBlocker, export/import) replayed on the real cfedistributor keeper with the C03 predicate and the module's own invariants evaluated on the real state",
        "level": "Model checking of the documented flow over configuration families x deposit patterns x blocks, plus conformance of the real BeginBlocker to every enumerated transition (balances of every account, every leftover, parameters). The C03 identity is additionally evaluated directly on the real States query after every block, so the verdict never rests on the model alone.",
        "note": DIST_NOTE,
    },
    "C04": {
        "technique": "TLA+ spec Distributor.tla with an entitlement ghost computed from the documented formula only (ShareExact invariant); per-destination balances and leftovers of the real keeper compared with the model on every transition, including shares to MAIN, internal accounts named like module accounts, multi-source and chained sub-distributors",
        "level": "The reference model is the independent model of the documented flow the property asks for; TLC proves ShareExact/PaidUp on it within bounds and the harness shows the real keeper produces the same per-destination receipts and leftovers on every enumerated transition.",
        "note": DIST_NOTE,
    },
    "C14": {
        "technique": "TLA+ spec Distributor.tla with a per-call fault choice in Block(F); TLC checks the C03 identity and ShareExact under every single-fault pattern over 3 blocks; the harness replays every faulty block on the real keeper through a bank-keeper wrapper that fails exactly the chosen calls",
        "level": "Fault enumeration by the model checker (every single failing sweep/payout/burn per block, followed by fault-free blocks) with conformance of the real keeper's state after each faulty block; PaidUp after a fault-free block shows the missed transfers are made up.",
        "note": DIST_NOTE + " Faults are injected at the bank-keeper interface of the distributor keeper; natural failures (blocked recipients, locked coins) are not separately enumerated.",
    },
    "C02": {
        "technique": "TLA+ spec Minter.tla: TLC exhaustive over all configurations x block partitions with an independent cumulative-schedule oracle; every model transition replayed on the real cfeminter BeginBlocker (model-based testing)",
        "level": "TLC checks ScheduleConformance / LinearExact / CarryOK / Monotone on the reference model for every configuration family member and every block partition of the bounded time line; the Go harness then executes every transition of the (decimal-exact) model graph on the real keeper and compares sequence id, amount minted, remainders, history, supply delta and events, so a code change that alters emission at any boundary explored is caught. Model checking + conformance is the right level because the property quantifies over block partitions, which a state-space enumeration covers completely within the bounds.",
        "note": "Bounds: <=3 periods, amounts <= 16, time line 0..10 ticks (tick = year/8), multipliers in {0,1/2,1}; arithmetic at real magnitude is trusted to scale (DecArith is scale-free) unless the numeric stage is run. TLC, the Json module and the harness projection are trusted.",
    },
}
