"""Numeric stage: check steps recorded from the real code against the TLA+ operators at P = 10^18 with Apalache."""
import os, random, re, shutil, subprocess, time

VERIF = os.path.dirname(os.path.dirname(os.path.abspath(__file__)))
SPEC = os.path.join(VERIF, "spec")
P18 = "1000000000000000000"


def _run_apalache(workdir, module, inv, timeout):
    t0 = time.time()
    env = dict(os.environ)
    env["JVM_ARGS"] = env.get("JVM_ARGS", "-Xmx6g -Xss256m")
    try:
        p = subprocess.run(["apalache-mc", "check", "--length=0", "--inv=" + inv, "--out-dir=" + os.path.join(workdir, "_apalache-out"), module],
                           cwd=workdir, stdout=subprocess.PIPE, stderr=subprocess.STDOUT, text=True, timeout=timeout, env=env)
    except subprocess.TimeoutExpired:
        return None, "timeout after %ss" % timeout, time.time() - t0
    out = p.stdout
    if "The outcome is: NoError" in out:
        return True, None, time.time() - t0
    if "The outcome is: Error" in out or "Found a violation" in out or "violation" in out.lower() and "EXITCODE: ERROR (12)" in out:
        return False, None, time.time() - t0
    return None, out[-3000:], time.time() - t0


def _check_vesting_batch(wd, rels, chunk, timeout):
    lines = ["---- MODULE Num_Vesting ----", "EXTENDS Integers", "VM == INSTANCE VestingMath WITH P <- " + P18, "VARIABLE", "  \\* @type: Int;", "  dummy",
             "Init == dummy = 0", "Next == UNCHANGED dummy"]
    chunks = []
    for i in range(0, len(rels), chunk):
        name = "C%d" % (i // chunk)
        chunks.append(name)
        lines.append(name + " ==\n  /\\ " + "\n  /\\ ".join(r[2] for r in rels[i:i + chunk]))
    lines.append("Inv == " + " /\\ ".join(chunks) if chunks else "Inv == TRUE")
    lines.append("====")
    open(os.path.join(wd, "Num_Vesting.tla"), "w").write("\n".join(lines) + "\n")
    ok, err, wall = _run_apalache(wd, "Num_Vesting.tla", "Inv", timeout)
    res = {"steps": len(rels), "wall_s": round(wall, 1), "bad": [], "error": None}
    if ok is None:
        res["error"] = err
    elif ok is False:
        # locate the disagreeing chunks, then the steps
        for ci, name in enumerate(chunks):
            okc, errc, _ = _run_apalache(wd, "Num_Vesting.tla", name, timeout)
            if okc is None:
                res["error"] = errc
                break
            if okc:
                continue
            for kind, s, rel in rels[ci * chunk:(ci + 1) * chunk]:
                one = ["---- MODULE Num_One ----", "EXTENDS Integers", "VM == INSTANCE VestingMath WITH P <- " + P18, "VARIABLE", "  \\* @type: Int;", "  dummy",
                       "Init == dummy = 0", "Next == UNCHANGED dummy", "Inv == " + rel, "===="]
                open(os.path.join(wd, "Num_One.tla"), "w").write("\n".join(one) + "\n")
                ok1, err1, _ = _run_apalache(wd, "Num_One.tla", "Inv", timeout)
                if ok1 is False:
                    res["bad"].append({"prop": "C07" if kind == "split" else "C08", "kind": "mismatch",
                                       "sig": "num.%s.differs-from-spec" % kind,
                                       "msg": "the real code's result differs from spec/VestingMath.tla evaluated at P = 10^18: " + rel,
                                       "path": [{"case": s}]})
                    if len(res["bad"]) >= 5:
                        break
            if len(res["bad"]) >= 5:
                break
    return res


def check_vesting(workdir, nres, chunk=20, limit=300, timeout=600):
    """Every recorded split must satisfy ovNew = SplitOVq(ov, 0, y, x, u, FALSE) and every recorded send ov = NewOV(amount, free)."""
    wd = os.path.join(workdir, "apalache")
    os.makedirs(wd, exist_ok=True)
    for f in ("DecArith.tla", "VestingMath.tla"):
        shutil.copy(os.path.join(SPEC, f), os.path.join(wd, f))
    splits = (nres.get("splits") or [])
    # the directed (lifted) steps first, then the others, capped
    def stride(xs, n):
        if len(xs) <= n or n <= 0:
            return xs
        k = len(xs) / float(n)
        return [xs[int(i * k)] for i in range(n)]
    nsend = max(8, limit // 4)
    lifted = stride([s for s in splits if s["source"] == "lifted"], (limit - nsend) // 3)
    others = stride([s for s in splits if s["source"] != "lifted"], limit - nsend - len(lifted))
    splits = lifted + others
    # (the recorder cycles through classes of free fractions: a fixed stride would alias with the cycle)
    allsends = list(nres.get("sends") or [])
    random.Random(len(allsends)).shuffle(allsends)
    generic = [x for x in allsends if x["free"] not in ("0", "1" + "0" * 18)]
    sends = (generic[:max(0, nsend - 2)] + [x for x in allsends if x not in generic][:2]) or allsends[:nsend]
    rels = []
    for s in splits:
        rels.append(("split", s, "VM!SplitOVq(%s, 0, %d, %d, %s, FALSE) = %s" % (s["ov"], s["y"], s["x"], s["u"], s["ov_new"])))
    for s in sends:
        rels.append(("send", s, "VM!NewOV(%s, %s) = %s" % (s["amount"], s["free"], s["ov"])))
    # Apalache holds the whole module in memory (1 200 relations exhausted a 6 GB heap): batches of at most 200 relations
    all_rels = rels
    res = {"steps": len(all_rels), "wall_s": 0.0, "bad": [], "error": None}
    for b0 in range(0, len(all_rels), 200):
        rels = all_rels[b0:b0 + 200]
        r1 = _check_vesting_batch(wd, rels, chunk, timeout)
        res["wall_s"] = round(res["wall_s"] + r1["wall_s"], 1)
        res["bad"] += r1["bad"]
        if r1["error"]:
            res["error"] = r1["error"]
            break
        if len(res["bad"]) >= 5:
            break
    shutil.rmtree(os.path.join(wd, "_apalache-out"), ignore_errors=True)
    return res


def _minter_relations(s):
    """Relations (TLA+ expressions over MM == INSTANCE MinterMath) that one recorded sample must satisfy."""
    P = int(P18)
    rels = []
    ps = s["periods"]
    T, start = s["t_ms"], s["start_ms"]

    def exp_total(p, X):
        h = p["hints"]
        n = max(0, (X - p["start_ms"]) // p["step_ms"]) if X >= p["start_ms"] else 0
        passed = X - p["start_ms"] - n * p["step_ms"]
        cur = h[n] if n < len(h) else h[-1]
        terms = list(h[:n]) + ["MM!ExpPart(%s, %d, %d)" % (cur, passed, p["step_ms"])]
        return " + ".join(terms), n

    # hint chains
    for p in ps:
        if p["kind"] == "EXP":
            h = p["hints"]
            rels.append("%s = MM!DecFromInt(%s)" % (h[0], p["amount"]))
            for k in range(1, len(h)):
                rels.append("MM!NextEpoch(%s, %s) = %s" % (h[k - 1], p["mult"], h[k]))
    # cumulative schedule at T
    if T < start:
        rels.append("%s = 0" % s["total"])
    else:
        terms = []
        for p in ps:
            finished = p["end_ms"] >= 0 and T >= p["end_ms"]
            X = p["end_ms"] if finished else T
            if p["kind"] == "LIN":
                terms.append("MM!DecFromInt(%s)" % p["amount"] if finished else "MM!LinPart(%s, %d, %d)" % (p["amount"], X - p["start_ms"], p["end_ms"] - p["start_ms"]))
            elif p["kind"] == "EXP":
                terms.append("(" + exp_total(p, X)[0] + ")")
            else:
                terms.append("0")
            if not finished:
                break
        rels.append("MM!TruncInt(%s) = %s" % (" + ".join(terms), s["total"]))
    # reported inflation at T
    if s.get("infl") not in (None, ""):
        ip = s["infl_period"]
        if 0 <= ip < len(ps):
            p = ps[ip]
            year_ms = 365 * 24 * 3600 * 1000
            if p["start_ms"] > T or p["kind"] == "NO" or (p["end_ms"] >= 0 and T >= p["end_ms"]):
                rels.append("%s = 0" % s["infl"])
            elif p["kind"] == "LIN":
                rels.append("MM!YearlyOverSupply(MM!DecFromInt(%s), %d, %d, %s) = %s" % (p["amount"], year_ms, p["end_ms"] - p["start_ms"], s["supply"], s["infl"]))
            else:
                _, n = exp_total(p, T)
                cur = p["hints"][n] if n < len(p["hints"]) else p["hints"][-1]
                rels.append("MM!YearlyOverSupply(%s, %d, %d, %s) = %s" % (cur, year_ms, p["step_ms"], s["supply"], s["infl"]))
    return rels


def check_minter(workdir, nres, chunk=20, limit=40, timeout=600):
    wd = os.path.join(workdir, "apalache")
    os.makedirs(wd, exist_ok=True)
    for f in ("DecArith.tla", "MinterMath.tla"):
        shutil.copy(os.path.join(SPEC, f), os.path.join(wd, f))
    allsamples = nres.get("samples") or []
    # a third of the budget goes to samples taken inside a period of centuries (beyond what a time.Duration holds), the rest in recorded order
    def in_long_period(x):
        return any(p["end_ms"] >= 0 and p["end_ms"] - p["start_ms"] > 9 * 10 ** 12 and p["start_ms"] < x["t_ms"] for p in x["periods"])
    longs = [x for x in allsamples if in_long_period(x)][:max(1, limit // 3)]
    # ... and a quarter to samples whose reported inflation belongs to a linear period with boundaries off the whole second
    def lin_subsecond(x):
        ip = x.get("infl_period")
        if ip is None or x.get("infl") in (None, "", "0"):
            return False
        p = x["periods"][ip] if isinstance(ip, int) and 0 <= ip < len(x["periods"]) else None
        return bool(p) and p["kind"] == "LIN" and p["end_ms"] >= 0 and (p["end_ms"] - p["start_ms"]) % 1000 != 0
    subs = [x for x in allsamples if lin_subsecond(x) and x not in longs][:max(1, limit // 4)]
    first = longs + subs
    samples = first + [x for x in allsamples if x not in first][:limit - len(first)]
    rels = []
    for s in samples:
        for r in _minter_relations(s):
            rels.append(("minter", s, r))
    head = ["EXTENDS Integers", "MM == INSTANCE MinterMath WITH P <- " + P18, "VARIABLE", "  \\* @type: Int;", "  dummy", "Init == dummy = 0", "Next == UNCHANGED dummy"]
    lines = ["---- MODULE Num_Minter ----"] + head
    chunks = []
    for i in range(0, len(rels), chunk):
        name = "C%d" % (i // chunk)
        chunks.append(name)
        lines.append(name + " ==\n  /\\ " + "\n  /\\ ".join(r[2] for r in rels[i:i + chunk]))
    lines.append("Inv == " + (" /\\ ".join(chunks) if chunks else "TRUE"))
    lines.append("====")
    open(os.path.join(wd, "Num_Minter.tla"), "w").write("\n".join(lines) + "\n")
    ok, err, wall = _run_apalache(wd, "Num_Minter.tla", "Inv", timeout)
    res = {"steps": len(rels), "samples": len(samples), "wall_s": round(wall, 1), "bad": [], "error": None}
    if ok is None:
        res["error"] = err
    elif ok is False:
        for ci, name in enumerate(chunks):
            okc, errc, _ = _run_apalache(wd, "Num_Minter.tla", name, timeout)
            if okc is None:
                res["error"] = errc
                break
            if okc:
                continue
            for kind, s, rel in rels[ci * chunk:(ci + 1) * chunk]:
                one = ["---- MODULE Num_One ----"] + head + ["Inv == " + rel, "===="]
                open(os.path.join(wd, "Num_One.tla"), "w").write("\n".join(one) + "\n")
                ok1, err1, _ = _run_apalache(wd, "Num_One.tla", "Inv", timeout)
                if ok1 is False:
                    prop = "C19" if "YearlyOverSupply" in rel or rel.startswith(str(s.get("infl")) + " = 0") else "C02"
                    res["bad"].append({"prop": prop, "kind": "mismatch", "sig": "num.minter.differs-from-spec." + ("inflation" if prop == "C19" else "schedule"),
                                       "msg": "the real code's result differs from spec/MinterMath.tla evaluated at P = 10^18: " + rel[:600],
                                       "path": [{"case": {k: s[k] for k in ("start_ms", "t_ms", "total", "blocks", "infl", "supply", "infl_period")}, "periods": s["periods"]}]})
                    if len(res["bad"]) >= 5:
                        break
            if len(res["bad"]) >= 5:
                break
    shutil.rmtree(os.path.join(wd, "_apalache-out"), ignore_errors=True)
    return res


def check_none(workdir, nres, chunk=20, limit=0, timeout=0):
    """Real-magnitude runs whose predicates are evaluated on the real results only (no recorded relations)."""
    return {"steps": 0, "samples": 0, "wall_s": 0.0, "bad": [], "error": None}
