#!/usr/bin/env python3
"""Regenerates /verif/MANIFEST.json from lib/registry.py and lib/manifest_text.py."""
import json, os, sys
VERIF = os.path.dirname(os.path.dirname(os.path.abspath(__file__)))
sys.path.insert(0, os.path.join(VERIF, "lib"))
import registry, manifest_text as T

props = [json.loads(l) for l in open(os.path.join(VERIF, "properties.jsonl"))]
checks, na = [], []
for p in props:
    pid = p["id"]
    if pid in registry.PROPS and pid in T.TEXT:
        t = T.TEXT[pid]
        extra = [T.STAGE_TEXT[st["name"]] for st in registry.PROPS[pid]["stages"] if st["name"] in T.STAGE_TEXT]
        checks.append({
            "property_id": pid,
            "quick_cmd": "bin/check %s --tier quick" % pid,
            "thorough_cmd": "bin/check %s --tier thorough" % pid,
            "evidence_file": "/verif/evidence/%s.json" % pid,
            "replay_cmd_template": "bin/check %s --replay {path}" % pid,
            "engine": "tla-mbt",
            "level_claimed": {"category": registry.PROPS[pid]["level"], "text": t["level"], "design_ref": t.get("ref", "DESIGN.md section 5 " + pid)},
            "level_note": t["note"],
            "technique": "; ".join([t["technique"]] + extra),
        })
    else:
        na.append({"property_id": pid, "reason": T.NA.get(pid, "check not built yet in this round; planned in DESIGN.md section 5 " + pid)})
m = {
    "version": 1,
    "setup_cmd": "bin/setup",
    "hooks": {"guard": "verif", "enable": "go build -tags verif (the harness is always built with -tags verif)",
              "baseline_off_cmd": "cd /repo && go test -mod=mod -json -vet=off -count=1 -timeout 25m ./...",
              "source_commits": T.HOOK_COMMITS, "add_only": True},
    "engines": [{"name": "tla-mbt", "path": "/verif/bin/check", "serves_properties": [c["property_id"] for c in checks],
                 "kind_free_text": "explicit TLA+ specification (spec/*.tla) model-checked by TLC; TLC prints the bounded transition relation as JSON, the Go harness (harness/) replays every transition on the real app built from /repo and compares the projected state; plus trace validation of recorded real executions against the same spec"}],
    "checks": checks,
    "not_applicable": na,
    "notes": T.NOTES,
}
json.dump(m, open(os.path.join(VERIF, "MANIFEST.json"), "w"), indent=1)
print("MANIFEST.json: %d checks, %d not claimed" % (len(checks), len(na)))
